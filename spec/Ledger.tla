------------------------------- MODULE Ledger -------------------------------
(***************************************************************************)
(* Transaction execution (executor RunTx + the Run method of the data      *)
(* types of the "ledger" family) as pure functions on the abstract state.  *)
(* Same order of checks and effects as coreV2/transaction/executor_v3.go   *)
(* and send.go, multisend.go, create_multisig.go, edit_multisig.go,        *)
(* lock.go, redeem_check.go:                                               *)
(*   early rejections (no effect at all) -> Run refused (failure-fee       *)
(*   branch, nonce untouched) -> success (fee, effect, nonce + 1).         *)
(* Scope of this module: commission coin = base coin and a price table     *)
(* denominated in the base coin (Supported(tx)); other fee routes are in   *)
(* Fees.tla.  The functions are used twice: by the model (MCLedger) to     *)
(* define the next-state relation, and by the trace specification to       *)
(* check that the real node's step is the step this module predicts        *)
(* (conformance).                                                          *)
(***************************************************************************)
EXTENDS State

\* response codes used here (coreV2/code)
OK == 0
WrongNonce == 101
CoinNotExists == 102
DecodeError == 106
InsufficientFunds == 107
InvalidMultisendData == 111
WrongChainID == 115
WrongDueHeight == 123
CheckInvalidLock == 501
CheckExpired == 502
CheckUsed == 503
TooHighGasPrice == 504
WrongGasCoin == 505
IncorrectWeights == 601
MultisigExists == 602
MultisigNotExists == 603
IncorrectMultiSignature == 604
TooLargeOwnersList == 605
DuplicatedAddresses == 606
DifferentCountAddressesAndWeights == 607
IncorrectTotalWeights == 608
NotEnoughMultisigVotes == 609

\* ---------------------------------------------------------------- state updates (normalised: no zero entries)
Without(f, k) == [x \in DOMAIN f \ {k} |-> f[x]]
PutBal(b, a, c, v) ==
   LET row == Get(b, a, <<>>)
       row2 == IF v = Zero THEN Without(row, c) ELSE (c :> v) @@ row
   IN IF DOMAIN row2 = {} THEN Without(b, a) ELSE (a :> row2) @@ b
AddBal(s, a, c, v) == [s EXCEPT !.bal = PutBal(@, a, c, Bal(s, a, c) ++ v)]
SubBal(s, a, c, v) == [s EXCEPT !.bal = PutBal(@, a, c, Bal(s, a, c) -- v)]
SetNonce(s, a, n) == [s EXCEPT !.nonce = (a :> n) @@ @]
AddPool(s, v) == [s EXCEPT !.rewardPool = @ ++ v]
CoinExists(s, c) == c = Base \/ c \in DOMAIN s.coins

\* ---------------------------------------------------------------- prices
PT(s) == s.price
ListLen(tx) == Len(tx.args.list)
TypePriceOf(s, tx) ==
   CASE tx.type = "Send" -> PT(s).Send
     [] tx.type = "Multisend" -> PT(s).MultisendBase ++ (Nat2A(ListLen(tx) - 1) ** PT(s).MultisendDelta)
     [] tx.type = "CreateMultisig" -> PT(s).CreateMultisig
     [] tx.type = "EditMultisig" -> PT(s).EditMultisig
     [] tx.type = "RedeemCheck" -> PT(s).RedeemCheck
     [] tx.type = "Lock" -> PT(s).Lock
     [] tx.type = "Delegate" -> PT(s).Delegate
     [] tx.type = "Unbond" -> PT(s).Unbond
     [] tx.type = "MoveStake" -> PT(s).MoveStake
     [] tx.type = "LockStake" -> PT(s).LockStake
     [] tx.type = "SetCandidateOn" -> PT(s).SetCandidateOn
     [] tx.type = "SetCandidateOff" -> PT(s).SetCandidateOff
     [] tx.type = "SetHaltBlock" -> PT(s).SetHaltBlock
     [] tx.type = "DeclareCandidacy" -> PT(s).DeclareCandidacy
     [] tx.type = "EditCandidate" -> PT(s).EditCandidate
     [] tx.type = "EditCandidateCommission" -> PT(s).EditCandidateCommission
     [] tx.type = "EditCandidatePublicKey" -> PT(s).EditCandidatePublicKey
     [] tx.type = "VoteUpdate" -> PT(s).VoteUpdate
     [] OTHER -> Zero
PriceFor(s, tx) == tx.gasPrice ** (TypePriceOf(s, tx) ++ (Nat2A(tx.bytes) ** PT(s).PayloadByte))
FailPriceFor(s, tx) == tx.gasPrice ** (PT(s).FailedTx ++ (Nat2A(tx.bytes) ** PT(s).PayloadByte))

LedgerTypes == {"Send", "Multisend", "CreateMultisig", "EditMultisig", "RedeemCheck", "Lock"}
\* what this module predicts exactly
Supported(s, tx) == /\ tx.type \in LedgerTypes
                    /\ tx.gasCoin = Base
                    /\ s.priceCoin = Base

\* ---------------------------------------------------------------- results
Res(code, s, fee) == [code |-> code, st |-> s, fee |-> fee,
                      tags |-> IF code = OK THEN [tx_commission_in_base_coin |-> fee, tx_commission_amount |-> fee] ELSE <<>>]
Reject(code, s) == Res(code, s, Zero)     \* early rejection: nothing changes

\* Run refused the transaction: the payer is charged the failure fee, capped at its balance; the nonce stays
FailWith(code, s, tx, payer) ==
   LET bal == Bal(s, payer, Base)
       fee == AMin(bal, FailPriceFor(s, tx))
   IN IF Zero \prec bal THEN Res(code, AddPool(SubBal(s, payer, Base, fee), fee), fee)
      ELSE Res(code, s, Zero)

\* common tail of a successful Run: pay the fee, bump the nonce
Paid(s, tx) == SetNonce(AddPool(SubBal(s, tx.sender, Base, PriceFor(s, tx)), PriceFor(s, tx)), tx.sender, tx.nonce)

\* ---------------------------------------------------------------- per-type Run
RunSend(s, tx) ==
   LET c == tx.args.coin  v == tx.args.value  fee == PriceFor(s, tx)
   IN IF ~CoinExists(s, c) THEN FailWith(CoinNotExists, s, tx, tx.sender)
      ELSE IF (c = Base /\ Bal(s, tx.sender, Base) \prec (v ++ fee))
              \/ (c # Base /\ (Bal(s, tx.sender, c) \prec v \/ Bal(s, tx.sender, Base) \prec fee))
      THEN FailWith(InsufficientFunds, s, tx, tx.sender)
      ELSE Res(OK, AddBal(SubBal(Paid(s, tx), tx.sender, c, v), tx.args.to, c, v), fee)

\* total per coin of a multisend list
ItemCoins(tx) == {tx.args.list[i].coin : i \in 1..ListLen(tx)}
TotalOf(tx, c) == SumOver(SelectSeq(tx.args.list, LAMBDA it : it.coin = c), LAMBDA it : it.value)
RECURSIVE ApplyItems(_, _, _)
ApplyItems(s, from, items) ==
   IF items = <<>> THEN s
   ELSE ApplyItems(AddBal(SubBal(s, from, Head(items).coin, Head(items).value), Head(items).to, Head(items).coin, Head(items).value), from, Tail(items))
RunMultisend(s, tx) ==
   LET fee == PriceFor(s, tx)
   IN IF ListLen(tx) < 1 \/ ListLen(tx) > 100 THEN FailWith(InvalidMultisendData, s, tx, tx.sender)
      ELSE IF \E c \in ItemCoins(tx) : ~CoinExists(s, c) THEN FailWith(CoinNotExists, s, tx, tx.sender)
      ELSE IF \E c \in ItemCoins(tx) \cup {Base} :
                 Bal(s, tx.sender, c) \prec (TotalOf(tx, c) ++ (IF c = Base THEN fee ELSE Zero))
      THEN FailWith(InsufficientFunds, s, tx, tx.sender)
      ELSE Res(OK, ApplyItems(Paid(s, tx), tx.sender, tx.args.list), fee)

\* owners: function name -> weight; ownerSeq: names in order; nWeights: number of weights given
WeightsBad(tx) == \E o \in DOMAIN tx.args.owners : tx.args.owners[o] > 1023
OwnersDup(tx) == Cardinality(Range(tx.args.ownerSeq)) # Len(tx.args.ownerSeq)
TotalWeight(tx) == LET ks == Keys(tx.args.owners) IN SumSeq([i \in 1..Len(ks) |-> Nat2A(tx.args.owners[ks[i]])])
NewMsig(tx) == [threshold |-> tx.args.threshold, owners |-> tx.args.owners, seq |-> tx.args.ownerSeq]
RunCreateMultisig(s, tx) ==
   LET fee == PriceFor(s, tx)
   IN IF tx.args.nWeights > 32 THEN FailWith(TooLargeOwnersList, s, tx, tx.sender)
      ELSE IF Len(tx.args.ownerSeq) # tx.args.nWeights THEN FailWith(DifferentCountAddressesAndWeights, s, tx, tx.sender)
      ELSE IF WeightsBad(tx) THEN FailWith(IncorrectWeights, s, tx, tx.sender)
      ELSE IF OwnersDup(tx) THEN FailWith(DuplicatedAddresses, s, tx, tx.sender)
      ELSE IF Bal(s, tx.sender, Base) \prec fee THEN FailWith(InsufficientFunds, s, tx, tx.sender)
      ELSE IF IsMsig(s, tx.args.address) THEN FailWith(MultisigExists, s, tx, tx.sender)
      ELSE Res(OK, [Paid(s, tx) EXCEPT !.msig = (tx.args.address :> NewMsig(tx)) @@ @], fee)
RunEditMultisig(s, tx) ==
   LET fee == PriceFor(s, tx)
   IN IF ~IsMsig(s, tx.sender) THEN FailWith(MultisigNotExists, s, tx, tx.sender)
      ELSE IF tx.args.nWeights > 32 THEN FailWith(TooLargeOwnersList, s, tx, tx.sender)
      ELSE IF Len(tx.args.ownerSeq) # tx.args.nWeights THEN FailWith(DifferentCountAddressesAndWeights, s, tx, tx.sender)
      ELSE IF WeightsBad(tx) THEN FailWith(IncorrectWeights, s, tx, tx.sender)
      ELSE IF OwnersDup(tx) THEN FailWith(DuplicatedAddresses, s, tx, tx.sender)
      ELSE IF TotalWeight(tx) \prec Nat2A(tx.args.threshold) THEN FailWith(IncorrectTotalWeights, s, tx, tx.sender)
      ELSE IF Bal(s, tx.sender, Base) \prec fee THEN FailWith(InsufficientFunds, s, tx, tx.sender)
      ELSE Res(OK, [Paid(s, tx) EXCEPT !.msig = (tx.sender :> NewMsig(tx)) @@ @], fee)

NewFrozen(tx) == [due |-> tx.args.due, o |-> tx.sender, id |-> 0, key |-> "", c |-> tx.args.coin, v |-> tx.args.value, to |-> 0]
RunLock(s, tx, h) ==
   LET c == tx.args.coin  v == tx.args.value  fee == PriceFor(s, tx)
   IN IF tx.args.due <= h THEN FailWith(WrongDueHeight, s, tx, tx.sender)
      ELSE IF ~CoinExists(s, c) THEN FailWith(CoinNotExists, s, tx, tx.sender)
      ELSE IF (c = Base /\ Bal(s, tx.sender, Base) \prec (v ++ fee))
              \/ (c # Base /\ (Bal(s, tx.sender, c) \prec v \/ Bal(s, tx.sender, Base) \prec fee))
      THEN FailWith(InsufficientFunds, s, tx, tx.sender)
      ELSE Res(OK, [SubBal(Paid(s, tx), tx.sender, c, v) EXCEPT !.frozen = Append(@, NewFrozen(tx))], fee)

\* A check redemption: the fee and the value are taken from the issuer; the redeemer's nonce moves.
\* args: check (id), issuer, checkCoin, checkGasCoin, value, due, checkChain, proofOk
RunRedeem(s, tx, h, chain) ==
   LET a == tx.args
       fee == PriceFor(s, tx)
       iss == a.issuer
   IN IF tx.gasPrice # One THEN FailWith(TooHighGasPrice, s, tx, iss)
      ELSE IF a.checkChain # chain THEN FailWith(WrongChainID, s, tx, iss)
      ELSE IF ~CoinExists(s, a.checkCoin) \/ ~CoinExists(s, a.checkGasCoin) THEN FailWith(CoinNotExists, s, tx, iss)
      ELSE IF tx.gasCoin # a.checkGasCoin THEN FailWith(WrongGasCoin, s, tx, iss)
      ELSE IF a.due < h THEN FailWith(CheckExpired, s, tx, iss)
      ELSE IF \E i \in DOMAIN s.checksUsed : s.checksUsed[i] = a.check THEN FailWith(CheckUsed, s, tx, iss)
      ELSE IF ~a.proofOk THEN FailWith(CheckInvalidLock, s, tx, iss)
      ELSE IF (a.checkCoin = Base /\ Bal(s, iss, Base) \prec (a.value ++ fee))
              \/ (a.checkCoin # Base /\ (Bal(s, iss, a.checkCoin) \prec a.value \/ Bal(s, iss, Base) \prec fee))
      THEN FailWith(InsufficientFunds, s, tx, iss)
      ELSE LET s1 == AddPool(SubBal(s, iss, Base, fee), fee)
               s2 == AddBal(SubBal(s1, iss, a.checkCoin, a.value), tx.sender, a.checkCoin, a.value)
               s3 == SetNonce(s2, tx.sender, tx.nonce)
           IN Res(OK, [s3 EXCEPT !.checksUsed = Append(@, a.check)], fee)

\* ---------------------------------------------------------------- the executor
Malleated(tx) == "malleated" \in DOMAIN tx.args \/ "noncanon" \in DOMAIN tx.args
MultisigCode(s, tx) ==   \* 0 = passes
   IF ~IsMsig(s, tx.from) THEN MultisigNotExists
   ELSE IF Len(tx.signedBy) > 32 \/ Len(tx.signedBy) > Len(s.msig[tx.from].seq) THEN IncorrectMultiSignature
   ELSE IF Cardinality(Range(tx.signedBy)) # Len(tx.signedBy) THEN DuplicatedAddresses
   ELSE IF ~MsigAuthorizes(s, tx.from, tx.signedBy) THEN NotEnoughMultisigVotes
   ELSE OK

\* DeliverTx for a transaction of this family; h = height of the block being built
RunTx(s, tx, h, chain) ==
   IF ~tx.intact \/ Malleated(tx) THEN Reject(DecodeError, s)            \* modified after signing: at most an unknown, empty account is involved
   ELSE IF tx.chain # chain THEN Reject(WrongChainID, s)
   ELSE IF ~CoinExists(s, tx.gasCoin) THEN Reject(CoinNotExists, s)
   ELSE IF tx.multi /\ MultisigCode(s, tx) # OK THEN Reject(MultisigCode(s, tx), s)
   ELSE IF tx.nonce # NonceOf(s, tx.sender) + 1 THEN Reject(WrongNonce, s)
   ELSE CASE tx.type = "Send" -> RunSend(s, tx)
          [] tx.type = "Multisend" -> RunMultisend(s, tx)
          [] tx.type = "CreateMultisig" -> RunCreateMultisig(s, tx)
          [] tx.type = "EditMultisig" -> RunEditMultisig(s, tx)
          [] tx.type = "Lock" -> RunLock(s, tx, h)
          [] tx.type = "RedeemCheck" -> RunRedeem(s, tx, h, chain)
=============================================================================
