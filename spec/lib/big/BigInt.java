import java.math.BigInteger;
import tlc2.value.impl.*;
import util.UniqueString;

// TLC module override for BigInt.tla: decimal-string integers over java.math.BigInteger.
public class BigInt {
    private static BigInteger bi(Value v) {
        if (v instanceof StringValue) {
            return new BigInteger(((StringValue) v).val.toString());
        }
        if (v instanceof IntValue) {
            return BigInteger.valueOf(((IntValue) v).val);
        }
        throw new RuntimeException("BigInt: not a number: " + v);
    }
    private static Value sv(BigInteger b) { return new StringValue(b.toString()); }

    public static Value BigAdd(Value a, Value b) { return sv(bi(a).add(bi(b))); }
    public static Value BigSub(Value a, Value b) { return sv(bi(a).subtract(bi(b))); }
    public static Value BigMul(Value a, Value b) { return sv(bi(a).multiply(bi(b))); }
    public static Value BigDiv(Value a, Value b) {
        BigInteger[] qr = bi(a).divideAndRemainder(bi(b));
        BigInteger q = qr[0];
        if (qr[1].signum() != 0 && (qr[1].signum() != bi(b).signum())) q = q.subtract(BigInteger.ONE);
        return sv(q);
    }
    public static Value BigMod(Value a, Value b) { return sv(bi(a).mod(bi(b).abs())); }
    public static Value BigCmp(Value a, Value b) { return IntValue.gen(bi(a).compareTo(bi(b))); }
    public static Value BigPow(Value a, Value n) { return sv(bi(a).pow(((IntValue) n).val)); }
    public static Value BigSqrt(Value a) { return sv(bi(a).sqrt()); }
    public static Value BigFromInt(Value n) { return sv(bi(n)); }
    public static Value BigToInt(Value a) { return IntValue.gen(bi(a).intValueExact()); }
    public static Value BigIsNum(Value a) {
        try { bi(a); return BoolValue.ValTrue; } catch (RuntimeException e) { return BoolValue.ValFalse; }
    }
    public static Value BigDigits(Value a) {
        String d = bi(a).abs().toString();
        if (d.equals("0")) return new TupleValue(new Value[0]);
        Value[] out = new Value[d.length()];
        for (int i = 0; i < d.length(); i++) out[i] = IntValue.gen(d.charAt(d.length() - 1 - i) - '0');
        return new TupleValue(out);
    }
    public static Value BigSumSeq(Value s) {
        BigInteger acc = BigInteger.ZERO;
        TupleValue t = (TupleValue) s.toTuple();
        if (t == null) throw new RuntimeException("BigSumSeq: not a sequence: " + s);
        for (Value e : t.elems) acc = acc.add(bi(e));
        return sv(acc);
    }
}
