------------------------------- MODULE Amount -------------------------------
(* Amount arithmetic over decimal-string integers (trace validation: real pip values). *)
EXTENDS BigInt
LOCAL INSTANCE Integers
Zero == "0"
One == "1"
a ++ b == BigAdd(a, b)
a -- b == BigSub(a, b)
a ** b == BigMul(a, b)
a // b == BigDiv(a, b)
a \preceq b == BigCmp(a, b) <= 0
a \prec b == BigCmp(a, b) < 0
Nat2A(n) == BigFromInt(n)
A2Nat(a) == BigToInt(a)
SumSeq(s) == BigSumSeq(s)
APow(a, n) == BigPow(a, n)
ASqrt(a) == BigSqrt(a)
AMod(a, b) == BigMod(a, b)
IsAmount(a) == BigIsNum(a)
AMin(a, b) == IF BigCmp(a, b) <= 0 THEN a ELSE b
AMax(a, b) == IF BigCmp(a, b) >= 0 THEN a ELSE b
=============================================================================
