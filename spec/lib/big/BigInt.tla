------------------------------- MODULE BigInt -------------------------------
(***************************************************************************)
(* Arbitrary-precision integers written as decimal strings ("0", "-17",    *)
(* "1000000000000000000000").  TLC's own integers are 32-bit, so the        *)
(* operators on strings are evaluated by the Java module override           *)
(* BigInt.class (java.math.BigInteger).  The Pure* operators give the       *)
(* semantics on little-endian digit tuples; bin/setup cross-checks the      *)
(* override against them through BigDigits (CrossCheck.tla).                *)
(***************************************************************************)
LOCAL INSTANCE Integers
LOCAL INSTANCE Sequences

RECURSIVE PTrim(_)
PTrim(s) == IF s = <<>> THEN <<>>
            ELSE IF s[Len(s)] = 0 THEN PTrim(SubSeq(s, 1, Len(s) - 1)) ELSE s

RECURSIVE MagAdd(_, _, _)
MagAdd(a, b, c) ==
   IF a = <<>> /\ b = <<>> THEN (IF c = 0 THEN <<>> ELSE <<c>>)
   ELSE LET x == IF a = <<>> THEN 0 ELSE Head(a)
            y == IF b = <<>> THEN 0 ELSE Head(b)
            s == x + y + c
        IN <<s % 10>> \o MagAdd(IF a = <<>> THEN <<>> ELSE Tail(a), IF b = <<>> THEN <<>> ELSE Tail(b), s \div 10)

RECURSIVE MagCmpRev(_, _)
MagCmpRev(a, b) ==
   IF a = <<>> THEN 0
   ELSE IF a[Len(a)] < b[Len(b)] THEN -1
   ELSE IF a[Len(a)] > b[Len(b)] THEN 1
   ELSE MagCmpRev(SubSeq(a, 1, Len(a) - 1), SubSeq(b, 1, Len(b) - 1))

RECURSIVE MagSub(_, _, _)
MagSub(a, b, br) ==
   IF a = <<>> THEN <<>>
   ELSE LET y == IF b = <<>> THEN 0 ELSE Head(b)
            d == Head(a) - y - br
        IN <<IF d < 0 THEN d + 10 ELSE d>> \o MagSub(Tail(a), IF b = <<>> THEN <<>> ELSE Tail(b), IF d < 0 THEN 1 ELSE 0)

RECURSIVE MagMulDigit(_, _, _)
MagMulDigit(a, d, c) ==
   IF a = <<>> THEN (IF c = 0 THEN <<>> ELSE <<c>>)
   ELSE LET s == Head(a) * d + c IN <<s % 10>> \o MagMulDigit(Tail(a), d, s \div 10)

RECURSIVE MagMul(_, _)
MagMul(a, b) ==
   IF b = <<>> THEN <<>>
   ELSE LET rest == MagMul(a, Tail(b))
        IN PTrim(MagAdd(MagMulDigit(a, Head(b), 0), IF rest = <<>> THEN <<>> ELSE <<0>> \o rest, 0))

\* semantics on digit tuples (non-negative operands; PureSub needs a >= b)
PureAdd(a, b) == PTrim(MagAdd(a, b, 0))
PureSub(a, b) == PTrim(MagSub(a, b, 0))
PureMul(a, b) == MagMul(a, b)
PureCmp(a, b) == IF Len(a) < Len(b) THEN -1 ELSE IF Len(a) > Len(b) THEN 1 ELSE MagCmpRev(a, b)

(***************************************************************************)
(* Operators on decimal strings: specified by the Pure* operators through   *)
(* BigDigits, evaluated by the Java override.                               *)
(***************************************************************************)
BigDigits(a) == CHOOSE d \in Seq(0..9) : TRUE   \* little-endian digits of |a|
BigAdd(a, b) == CHOOSE r \in STRING : TRUE
BigSub(a, b) == CHOOSE r \in STRING : TRUE
BigMul(a, b) == CHOOSE r \in STRING : TRUE
BigDiv(a, b) == CHOOSE r \in STRING : TRUE      \* floor division, b # 0
BigMod(a, b) == CHOOSE r \in STRING : TRUE
BigCmp(a, b) == CHOOSE r \in {-1, 0, 1} : TRUE
BigPow(a, n) == CHOOSE r \in STRING : TRUE      \* n a native natural
BigSqrt(a) == CHOOSE r \in STRING : TRUE        \* floor square root
BigFromInt(n) == CHOOSE r \in STRING : TRUE
BigToInt(a) == CHOOSE r \in Int : TRUE          \* only for values that fit in 32 bits
BigSumSeq(s) == CHOOSE r \in STRING : TRUE      \* sum of a sequence of decimal strings
BigIsNum(a) == CHOOSE r \in BOOLEAN : TRUE
=============================================================================
