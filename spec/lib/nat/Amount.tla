------------------------------- MODULE Amount -------------------------------
(* Amount arithmetic over native TLC integers (exhaustive model checking: small units). *)
LOCAL INSTANCE Integers
LOCAL INSTANCE Sequences
Zero == 0
One == 1
a ++ b == a + b
a -- b == a - b
a ** b == a * b
a // b == a \div b
a \preceq b == a <= b
a \prec b == a < b
Nat2A(n) == n
A2Nat(a) == a
RECURSIVE SumSeq(_)
SumSeq(s) == IF s = <<>> THEN 0 ELSE Head(s) + SumSeq(Tail(s))
RECURSIVE APow(_, _)
APow(a, n) == IF n = 0 THEN 1 ELSE a * APow(a, n - 1)
ASqrt(a) == CHOOSE r \in 0..a : r * r <= a /\ (r + 1) * (r + 1) > a
AMod(a, b) == a % b
IsAmount(a) == a \in Int
AMin(a, b) == IF a <= b THEN a ELSE b
AMax(a, b) == IF a >= b THEN a ELSE b
=============================================================================
