------------------------------- MODULE Codec -------------------------------
(***************************************************************************)
(* Canonical RLP over byte sequences and the signature value rules (C23).   *)
(* Dec is a strict decoder: a byte string has exactly one accepted          *)
(* encoding (single bytes below 0x80 stand for themselves, the short form   *)
(* is used whenever the payload is shorter than 56 bytes, length fields     *)
(* have no leading zero, nothing follows the item).  Integers are byte      *)
(* strings without leading zero bytes.  Enc is the inverse of Dec.          *)
(* A transaction is the list                                               *)
(*   [nonce, chainId, gasPrice, gasCoin, type, data, payload, serviceData,  *)
(*    sigType, sigData]                                                     *)
(* where data and sigData are byte strings that are RLP items themselves.   *)
(***************************************************************************)
EXTENDS Amount, Integers, Sequences

Bad == [ok |-> FALSE]
\* big-endian value of up to three length bytes
RECURSIVE BE(_)
BE(bs) == IF bs = <<>> THEN 0 ELSE BE(SubSeq(bs, 1, Len(bs) - 1)) * 256 + bs[Len(bs)]
Str(bs) == [t |-> "s", b |-> bs]
Lst(xs) == [t |-> "l", xs |-> xs]

RECURSIVE DecItem(_), DecList(_)
\* decodes the first item of b: [ok, item, n = bytes consumed]
DecItem(b) ==
   IF b = <<>> THEN Bad
   ELSE LET h == b[1] IN
      IF h < 128 THEN [ok |-> TRUE, item |-> Str(<<h>>), n |-> 1]
      ELSE IF h <= 183 THEN
         LET len0 == h - 128 IN
         IF Len(b) < 1 + len0 THEN Bad
         ELSE IF len0 = 1 /\ b[2] < 128 THEN Bad                                   \* a single byte below 0x80 is its own encoding
         ELSE [ok |-> TRUE, item |-> Str(SubSeq(b, 2, 1 + len0)), n |-> 1 + len0]
      ELSE IF h <= 191 THEN
         LET ll == h - 183 IN
         IF ll > 3 \/ Len(b) < 1 + ll \/ b[2] = 0 THEN Bad                          \* no leading zero in the length
         ELSE LET len0 == BE(SubSeq(b, 2, 1 + ll)) IN
              IF len0 < 56 \/ Len(b) < 1 + ll + len0 THEN Bad                             \* the short form must be used below 56
              ELSE [ok |-> TRUE, item |-> Str(SubSeq(b, 2 + ll, 1 + ll + len0)), n |-> 1 + ll + len0]
      ELSE IF h <= 247 THEN
         LET len0 == h - 192 IN
         IF Len(b) < 1 + len0 THEN Bad
         ELSE LET xs == DecList(SubSeq(b, 2, 1 + len0)) IN
              IF xs.ok THEN [ok |-> TRUE, item |-> Lst(xs.items), n |-> 1 + len0] ELSE Bad
      ELSE
         LET ll == h - 247 IN
         IF ll > 3 \/ Len(b) < 1 + ll \/ b[2] = 0 THEN Bad
         ELSE LET len0 == BE(SubSeq(b, 2, 1 + ll)) IN
              IF len0 < 56 \/ Len(b) < 1 + ll + len0 THEN Bad
              ELSE LET xs == DecList(SubSeq(b, 2 + ll, 1 + ll + len0)) IN
                   IF xs.ok THEN [ok |-> TRUE, item |-> Lst(xs.items), n |-> 1 + ll + len0] ELSE Bad
DecList(b) ==
   IF b = <<>> THEN [ok |-> TRUE, items |-> <<>>]
   ELSE LET x == DecItem(b) IN
        IF ~x.ok THEN Bad
        ELSE LET r == DecList(SubSeq(b, x.n + 1, Len(b))) IN
             IF r.ok THEN [ok |-> TRUE, items |-> <<x.item>> \o r.items] ELSE Bad
\* the whole byte string is one item
Dec(b) == LET x == DecItem(b) IN IF x.ok /\ x.n = Len(b) THEN x ELSE Bad

\* canonical encoder
RECURSIVE LenBytes(_)
LenBytes(n) == IF n = 0 THEN <<>> ELSE LenBytes(n \div 256) \o <<n % 256>>
Prefix(base, n) == IF n < 56 THEN <<base + n>> ELSE <<base + 55 + Len(LenBytes(n))>> \o LenBytes(n)
RECURSIVE Enc(_), EncAll(_)
Enc(it) == IF it.t = "s"
           THEN (IF Len(it.b) = 1 /\ it.b[1] < 128 THEN it.b ELSE Prefix(128, Len(it.b)) \o it.b)
           ELSE LET body == EncAll(it.xs) IN Prefix(192, Len(body)) \o body
EncAll(xs) == IF xs = <<>> THEN <<>> ELSE Enc(Head(xs)) \o EncAll(Tail(xs))

\* integers
IsInt(it) == it.t = "s" /\ Len(it.b) <= 32 /\ (it.b = <<>> \/ it.b[1] # 0)
RECURSIVE Num(_)
Num(bs) == IF bs = <<>> THEN Zero ELSE (Num(SubSeq(bs, 1, Len(bs) - 1)) ** Nat2A(256)) ++ Nat2A(bs[Len(bs)])
IsStr(it) == it.t = "s"
IsList(it, n) == it.t = "l" /\ Len(it.xs) = n

\* signature values: recovery id 27/28, 0 < R < N, 0 < S <= N/2 (low S: the other solution N - S is not a second valid encoding)
CurveN == "115792089237316195423570985008687907852837564279074904382605163141518161494337"
HalfN == CurveN // Nat2A(2)
SigValuesOk(v, r, s) == /\ IsInt(v) /\ IsInt(r) /\ IsInt(s)
                        /\ Num(v.b) \in {Nat2A(27), Nat2A(28)}
                        /\ Zero \prec Num(r.b) /\ Num(r.b) \prec CurveN
                        /\ Zero \prec Num(s.b) /\ Num(s.b) \preceq HalfN
SingleSigOk(bytes) == LET d == Dec(bytes) IN d.ok /\ IsList(d.item, 3) /\ SigValuesOk(d.item.xs[1], d.item.xs[2], d.item.xs[3])
MultiSigOk(bytes) == LET d == Dec(bytes) IN
                     /\ d.ok /\ IsList(d.item, 2) /\ IsStr(d.item.xs[1]) /\ Len(d.item.xs[1].b) = 20 /\ d.item.xs[2].t = "l"
                     /\ \A i \in DOMAIN d.item.xs[2].xs : LET sg == d.item.xs[2].xs[i] IN IsList(sg, 3) /\ SigValuesOk(sg.xs[1], sg.xs[2], sg.xs[3])

\* a transaction in its one canonical encoding
TxFieldsOk(xs) == /\ \A i \in {1, 2, 3, 4, 5, 9} : IsInt(xs[i])
                  /\ \A i \in {6, 7, 8, 10} : IsStr(xs[i])
                  /\ Dec(xs[6].b).ok                                            \* data is one canonical item
TxSigOk(xs) == IF Num(xs[9].b) = Nat2A(1) THEN SingleSigOk(xs[10].b)
               ELSE IF Num(xs[9].b) = Nat2A(2) THEN MultiSigOk(xs[10].b) ELSE FALSE
CanonicalTx(raw) == LET d == Dec(raw) IN d.ok /\ IsList(d.item, 10) /\ TxFieldsOk(d.item.xs)
TxSignatureOk(raw) == LET d == Dec(raw) IN d.ok /\ IsList(d.item, 10) /\ TxFieldsOk(d.item.xs) /\ TxSigOk(d.item.xs)
RoundTrips(raw) == LET d == Dec(raw) IN d.ok /\ Enc(d.item) = raw

\* a check: [nonce, chainId, dueBlock, coin, value, gasCoin, lock, V, R, S]
CanonicalCheck(raw) == LET d == Dec(raw) IN
   /\ d.ok /\ IsList(d.item, 10)
   /\ IsStr(d.item.xs[1]) /\ IsStr(d.item.xs[7])
   /\ \A i \in {2, 3, 4, 5, 6} : IsInt(d.item.xs[i])
   /\ SigValuesOk(d.item.xs[8], d.item.xs[9], d.item.xs[10])
\* the raw check carried by a RedeemCheck transaction: data = [rawCheck, proof]
CheckOf(raw) == LET d == Dec(raw) IN
                IF ~(d.ok /\ IsList(d.item, 10) /\ IsStr(d.item.xs[6])) THEN <<>>
                ELSE LET dd == Dec(d.item.xs[6].b) IN
                     IF dd.ok /\ dd.item.t = "l" /\ Len(dd.item.xs) = 2 /\ IsStr(dd.item.xs[1]) THEN dd.item.xs[1].b ELSE <<>>
=============================================================================
