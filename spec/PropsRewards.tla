------------------------------- MODULE PropsRewards -------------------------------
(***************************************************************************)
(* C28: the block reward follows the price rule and stops at the emission   *)
(* cap.  The rule is the text of module Rewards (the same operators the     *)
(* model MCRewards is built from); here it is evaluated on every BeginBlock *)
(* and EndBlock of the real node, over real pip values.                     *)
(*   BeginBlock: when the price record may change, and to what;             *)
(*   EndBlock:   what is added to the emission counter, what is burned.     *)
(***************************************************************************)
EXTENDS PropsSync, Rewards

USDT == "1993"
UsdtPools(s) == {p \in DOMAIN s.pools : {s.pools[p].c0, s.pools[p].c1} = {Base, USDT}}
HasUsdtPool == UsdtPools(st) # {}
ThePool == st.pools[CHOOSE p \in UsdtPools(st) : TRUE]
BipRes == IF ThePool.c0 = Base THEN ThePool.r0 ELSE ThePool.r1
UsdtRes == IF ThePool.c0 = Base THEN ThePool.r1 ELSE ThePool.r0

Billion == Nat2A(1000000000)
NowNs == Nat2A(ev'.begin.time) ** Billion
ThreeHoursNs == Nat2A(10800) ** Billion
Over3h == ThreeHoursNs \prec (NowNs -- st.priceRec.t)
MustRecompute == RecomputeAt(H, Cfg.stakePeriod, ev'.begin.hour, Over3h, st.emission, hist.cap)

BeginOk == IsKind("BeginBlock") /\ NoPanic /\ HasUsdtPool
\* the price record changes exactly when the rule says so
C28_When ==
   Clause("C28", "RecomputedOnlyWhenDue", BeginOk,
          (st'.priceRec # st.priceRec) <=> MustRecompute,
          [at |-> Where, due |-> MustRecompute, hour |-> ev'.begin.hour, over3h |-> Over3h, before |-> st.priceRec, after |-> st'.priceRec,
           emission |-> st.emission])
C28_Keep ==
   Clause("C28", "RewardKeptBetweenUpdates", BeginOk /\ ~MustRecompute /\ st.emission \prec hist.cap,
          st'.reward = st.reward /\ st'.safeReward = st.safeReward,
          [at |-> Where, before |-> <<st.reward, st.safeReward>>, after |-> <<st'.reward, st'.safeReward>>])
C28_CapReward ==
   Clause("C28", "NoRewardAtTheCap", IsKind("BeginBlock") /\ NoPanic /\ ~(st.emission \prec hist.cap),
          st'.reward = Zero /\ st'.safeReward = Zero,
          [at |-> Where, emission |-> st.emission, after |-> <<st'.reward, st'.safeReward>>])
\* the price-derived reward: R = 350 * (usdt/bip)^(1/4) BIP, i.e. R^4 * bip = (350 * 10^18)^4 * usdt up to truncation and
\* the relative error of the floating-point root (tolerance 10^-9 on R^4)
K4 == APow("350000000000000000000", 4)
Tolerance == Nat2A(1000000000)
DerivedOk(r) == (AbsDiff(APow(r, 4) ** BipRes, K4 ** UsdtRes) ** Tolerance) \preceq (K4 ** UsdtRes)
C28_Value ==
   Clause("C28", "PriceDerivedReward", BeginOk /\ MustRecompute,
          /\ DerivedOk(st'.safeReward)
          /\ st'.priceRec.r0 = BipRes /\ st'.priceRec.r1 = UsdtRes /\ st'.priceRec.t = NowNs,
          [at |-> Where, safeReward |-> st'.safeReward, bip |-> BipRes, usdt |-> UsdtRes, rec |-> st'.priceRec, now |-> NowNs])
\* price change in whole percent, rounded down: floor(100 * new / old) - 100, with new = usdt/bip now, old = the record's
OldOk == Zero \prec st.priceRec.r0 /\ Zero \prec st.priceRec.r1
PctNow == ((Nat2A(100) ** UsdtRes) ** st.priceRec.r0) // (st.priceRec.r1 ** BipRes)
TenBip == "10000000000000000000"
Expected == RewardRule([last |-> st.priceRec.last, off |-> st.priceRec.off], st'.safeReward, PctNow, TenBip)
RuleHolds == /\ st'.reward = Expected.reward
             /\ st'.priceRec.last = Expected.last
             /\ st'.priceRec.off = Expected.off
RuleDescr == [at |-> Where, pct |-> PctNow, old |-> st.priceRec, expected |-> Expected, reward |-> st'.reward, rec |-> st'.priceRec, derived |-> st'.safeReward]
Fell == PctNow \preceq Nat2A(90)
C28_Drop ==
   Clause("C28", "DropSwitchesValidatorShareOff", BeginOk /\ MustRecompute /\ OldOk /\ Fell,
          RuleHolds /\ st'.reward = Zero /\ st'.priceRec.off, RuleDescr)
C28_Recover ==
   Clause("C28", "RecoveryByTenBipPerUpdate", BeginOk /\ MustRecompute /\ OldOk /\ ~Fell /\ st.priceRec.off, RuleHolds, RuleDescr)
C28_Normal ==
   Clause("C28", "FullDerivedRewardOtherwise", BeginOk /\ MustRecompute /\ OldOk /\ ~Fell /\ ~st.priceRec.off,
          RuleHolds /\ st'.reward = st'.safeReward, RuleDescr)
C28_Rule == C28_Drop /\ C28_Recover /\ C28_Normal
\* EndBlock: the emission counter grows by the price-derived reward (plus what locked stakes earn on top at a payout), the part
\* withheld from validators is burned at the zero address; at the cap nothing is minted
ZeroBalGain == Bal(st', "zero", Base) -- Bal(st, "zero", Base)
IsPay == H % Cfg.stakePeriod = 0
C28_Mint ==
   Clause("C28", "EmissionGrowsByDerivedReward", IsKind("EndBlock") /\ NoPanic,
          LET grown == st'.emission -- st.emission
              minted == MintedAt(st.emission, hist.cap, st.safeReward)
          IN IF IsPay /\ st.emission \prec hist.cap THEN minted \preceq grown ELSE grown = minted,
          [at |-> Where, before |-> st.emission, after |-> st'.emission, safeReward |-> st.safeReward, cap |-> hist.cap])
C28_Burn ==
   Clause("C28", "WithheldPartBurned", IsKind("EndBlock") /\ NoPanic /\ ~IsPay,
          ZeroBalGain = BurnedAt(st.emission, hist.cap, st.reward, st.safeReward),
          [at |-> Where, gain |-> ZeroBalGain, reward |-> st.reward, safeReward |-> st.safeReward])
C28_Step == C28_When /\ C28_Keep /\ C28_CapReward /\ C28_Value /\ C28_Rule /\ C28_Mint /\ C28_Burn
=============================================================================
