------------------------------- MODULE Conformance -------------------------------
(***************************************************************************)
(* Conformance of the real node to the executable model of the executor     *)
(* (Ledger.tla, Staking.tla): for every recorded delivery that the model    *)
(* covers (Send, Multisend, CreateMultisig, EditMultisig, Lock, RedeemCheck,*)
(* Delegate, Unbond, MoveStake, LockStake, SetCandidateOn/Off; commission   *)
(* and stake in the base coin, price table in the base coin, bytes as       *)
(* signed) the response code and the complete abstract state after *)
(* the call must be the ones RunTx computes from the state before the call. *)
(* A mismatch is reported as drift: the specification no longer describes   *)
(* the code (or the other way round).  It is not a verdict on any listed    *)
(* property -- those are the clauses of Props*.tla -- but it is what ties    *)
(* the model that TLC explores exhaustively to the implementation.          *)
(***************************************************************************)
EXTENDS PropsCodec, Orders

ModelCovers == /\ Delivered /\ Tx.intact /\ Tx.mut = "" /\ (Supported(st, Tx) \/ StakingSupported(st, Tx) \/ CoinsSupported(st, Tx) \/ OrdersSupported(st, Tx)) /\ "st" \in DOMAIN ev'
               /\ (Tx.type = "RedeemCheck" => (HasArg("issuer") /\ HasArg("proofOk")))
               /\ (Tx.type \in {"CreateToken", "RecreateToken", "CreateCoin", "RecreateCoin"} => Code \notin {203, 204})      \* ticker and name well-formed (not part of the abstract transaction)
NodeLimits == [maxSupply |-> (Nat2A(1000000) ** Nat2A(1000000000)) ** hist.unit,       \* 10^15 coins
               minSupply |-> hist.unit, minReserve |-> Nat2A(10000) ** hist.unit]
Predicted == RunTxO(st, Tx, H, Cfg, NodeLimits)
Conf_Code ==
   Clause("DRIFT", "LedgerModelPredictsCode", ModelCovers, Predicted.code = Code,
          [at |-> WhereTx, predicted |-> Predicted.code])
Conf_State ==
   Clause("DRIFT", "LedgerModelPredictsState", ModelCovers /\ Predicted.code = Code,
          StateDiff(Predicted.st, st') = {},
          [at |-> WhereTx, differs |-> StateDiff(Predicted.st, st')])
\* ---------------------------------------------------------------- block steps of the staking lifecycle (Staking.tla: BeginS, EndS, CommitS)
\* Covered: stakes, pending updates and (on evidence blocks) unbonding funds in the base coin, every validator listed in the block's votes,
\* no vote to be counted at this height, no owner with a stake lock at a payout, fewer than 100 candidates.  Compared: the fields the
\* lifecycle owns.  (The block-reward rule, gas limits, votes and the order book are other modules' business.)
StakeFields == {"bal", "cands", "vals", "frozen", "wait", "slashed", "lockUntil"}
BlockDiff(s, t, fs) == {f \in fs : ~SameField(s, t, f)}
AllStakesBase(s) == \A p \in DOMAIN s.cands : \A x \in Range(s.cands[p].stakes) \cup Range(s.cands[p].upd) : x.c = Base
AllFrozenBase(s) == \A f \in Range(s.frozen) : f.c = Base
SmallCands(s) == Cardinality(DOMAIN s.cands) < 100 /\ \A p \in DOMAIN s.cands : Len(s.cands[p].stakes) < 1000
BeginCovered == /\ IsKind("BeginBlock") /\ NoPanic /\ "st" \in DOMAIN ev' /\ "begin" \in DOMAIN ev' /\ ~hist.imported /\ ~hist.synced
                /\ ValNames(st) \subseteq (Range(ev'.begin.absent) \cup Range(ev'.begin.present))
                /\ (ev'.begin.evidence # <<>> => AllStakesBase(st) /\ AllFrozenBase(st))
                /\ SmallCands(st)
PredBegin == BeginS(st, H, Range(ev'.begin.absent), ev'.begin.evidence, Cfg)
Conf_Begin ==
   Clause("DRIFT", "StakingModelPredictsBeginBlock", BeginCovered, BlockDiff(PredBegin, st', StakeFields) = {},
          [at |-> Where, differs |-> BlockDiff(PredBegin, st', StakeFields)])
KeyChanged == \E p \in DOMAIN st.cands : \E q \in DOMAIN disk.cands : disk.cands[q].id = st.cands[p].id /\ q # p
NoVotesNow == VotesAt(st.updVotes, H) = <<>> /\ VotesAt(st.commVotes, H) = <<>>
NoLockedOwner == \A p \in DOMAIN st.cands : \A x \in Range(st.cands[p].stakes) : LockOf(st, x.o) <= H
EndCovered == /\ IsKind("EndBlock") /\ NoPanic /\ "st" \in DOMAIN ev' /\ ~hist.imported /\ ~hist.synced
              /\ SmallCands(st) /\ NoVotesNow
              \* stakes in other coins need the bancor valuation only when stakes are recalculated (payout, dropped validator, key change)
              /\ (AllStakesBase(st) \/ ~(IsPayout \/ KeyChanged \/ \E v \in Range(st.vals) : v.toDrop))
              /\ (IsPayout => NoLockedOwner)
PredEnd == EndS(st, H, hist.present, Cfg, hist.unit, hist.cap, KeyChanged, disk.orders)
Conf_End ==
   Clause("DRIFT", "StakingModelPredictsEndBlock", EndCovered, BlockDiff(PredEnd, st', StakeFields \cup {"emission", "orders"}) = {},
          [at |-> Where, differs |-> BlockDiff(PredEnd, st', StakeFields \cup {"emission", "orders"}),
           cands |-> [p \in {q \in DOMAIN PredEnd.cands \cap DOMAIN st'.cands : ~CandEq(PredEnd.cands[q], st'.cands[q])} |-> <<PredEnd.cands[p], st'.cands[p]>>]])
CommitCovered == IsKind("Commit") /\ NoPanic /\ "st" \in DOMAIN ev' /\ ~hist.imported /\ ~hist.synced /\ ~hist.crashed
Conf_Commit ==
   Clause("DRIFT", "StakingModelPredictsCommit", CommitCovered, BlockDiff(CommitS(st), st', StakeFields) = {},
          [at |-> Where, differs |-> BlockDiff(CommitS(st), st', StakeFields)])
\* ---------------------------------------------------------------- pool trades and liquidity: the node's amounts are the ones Pools.tla computes
\* (Pools.tla is what MCPools explores exhaustively.)  Covered: a single-hop trade in a pool that has no limit orders, commission paid in the base
\* coin from a base-coin price table; adding / removing liquidity with the commission not converted through that pool.
PL == INSTANCE Pools
Hops == 1..(Len(CoinsArg) - 1)
HopPools(i) == PoolOf(st, CoinsArg[i], CoinsArg[i + 1])
HopPool(i) == CHOOSE p \in HopPools(i) : TRUE
NoOrdersIn(p) == \A o \in DOMAIN st.orders : st.orders[o].pool # p
\* a route of one or more hops through distinct pools without limit orders
TradeCovered == /\ Delivered /\ Code = 0 /\ Tx.type \in {"SellSwapPool", "BuySwapPool"} /\ Tx.intact /\ "st" \in DOMAIN ev'
                /\ Len(CoinsArg) >= 2 /\ Tx.gasCoin = Base /\ st.priceCoin = Base
                /\ \A i \in Hops : Cardinality(HopPools(i)) = 1 /\ NoOrdersIn(HopPool(i)) /\ HopPool(i) \in DOMAIN st'.pools
                /\ \A i, k \in Hops : i # k => HopPool(i) # HopPool(k)
Fwd(i) == st.pools[HopPool(i)].c0 = CoinsArg[i]
RIn(i) == IF Fwd(i) THEN st.pools[HopPool(i)].r0 ELSE st.pools[HopPool(i)].r1
ROut(i) == IF Fwd(i) THEN st.pools[HopPool(i)].r1 ELSE st.pools[HopPool(i)].r0
RIn2(i) == IF Fwd(i) THEN st'.pools[HopPool(i)].r0 ELSE st'.pools[HopPool(i)].r1
ROut2(i) == IF Fwd(i) THEN st'.pools[HopPool(i)].r1 ELSE st'.pools[HopPool(i)].r0
\* the trades of the hops: a sell pushes its amount forward through the route, a buy pulls its amount backward
RECURSIVE SellHops(_, _)
SellHops(i, v) == IF i > Len(CoinsArg) - 1 THEN <<>>
                  ELSE LET t == PL!SellTrade(RIn(i), ROut(i), v) IN <<t>> \o (IF t.ok THEN SellHops(i + 1, t.out) ELSE <<>>)
RECURSIVE BuyHops(_, _)
BuyHops(i, v) == IF i < 1 THEN <<>>
                 ELSE LET t == PL!BuyTrade(RIn(i), ROut(i), v) IN (IF t.ok THEN BuyHops(i - 1, t.pay) ELSE <<>>) \o <<t>>
RouteTrades == IF Tx.type = "SellSwapPool" THEN SellHops(1, Arg("value")) ELSE BuyHops(Len(CoinsArg) - 1, Arg("value"))
Conf_Trade ==
   Clause("DRIFT", "PoolModelPredictsTrade", TradeCovered,
          LET ts == RouteTrades IN
          /\ Len(ts) = Len(CoinsArg) - 1
          /\ \A i \in Hops : ts[i].ok /\ RIn2(i) = RIn(i) ++ ts[i].net /\ ROut2(i) = ROut(i) -- ts[i].out
          /\ Got(CoinsArg[Len(CoinsArg)]) = ts[Len(ts)].out
          /\ Spent(CoinsArg[1]) = ts[1].pay,
          [at |-> WhereTx, before |-> [i \in Hops |-> st.pools[HopPool(i)]], after |-> [i \in Hops |-> st'.pools[HopPool(i)]],
           got |-> Got(CoinsArg[Len(CoinsArg)]), spent |-> Spent(CoinsArg[1]), value |-> Arg("value")])
LiqPools == PoolOf(st, Arg("c0"), Arg("c1"))
LiqCovered == /\ Delivered /\ Code = 0 /\ Tx.type \in {"AddLiquidity", "RemoveLiquidity"} /\ Tx.intact /\ "st" \in DOMAIN ev' /\ ~FeeThroughPool
              /\ Cardinality(LiqPools) = 1 /\ \A p \in LiqPools : p \in DOMAIN st'.pools
Conf_Liquidity ==
   Clause("DRIFT", "PoolModelPredictsLiquidity", LiqCovered,
          \A p \in LiqPools :
             LET q == st.pools[p]  q2 == st'.pools[p]  sup == LpVol(st, p)
                 fwd == q.c0 = Arg("c0")
                 ra == IF fwd THEN q.r0 ELSE q.r1        \* reserve of the coin the transaction names first
                 rb == IF fwd THEN q.r1 ELSE q.r0
                 ra2 == IF fwd THEN q2.r0 ELSE q2.r1
                 rb2 == IF fwd THEN q2.r1 ELSE q2.r0
             IN IF Tx.type = "AddLiquidity"
                THEN LET m == PL!MintFor(ra, rb, sup, Arg("v0"))
                     IN ra2 = ra ++ Arg("v0") /\ rb2 = rb ++ m.a1 /\ LpVol(st', p) = sup ++ m.liq
                ELSE LET m == PL!AmountsFor(ra, rb, sup, Arg("liquidity"))
                     IN ra2 = ra -- m.a0 /\ rb2 = rb -- m.a1 /\ LpVol(st', p) = sup -- Arg("liquidity"),
          [at |-> WhereTx, before |-> [p \in LiqPools |-> st.pools[p]], after |-> [p \in LiqPools |-> st'.pools[p]],
           supply |-> [p \in LiqPools |-> <<LpVol(st, p), LpVol(st', p)>>]])
\* ---------------------------------------------------------------- commission paid in a token through its pool with the base coin
\* A successful delivery whose gas coin is a token (no reserve: the pool route is the only one) with an order-free pool against the base coin:
\* the sender sells, into that pool, the amount that buys the price of the transaction (BuyTrade: what the pool needs plus the burned part),
\* the base coins that sale really yields (SellTrade of that amount) go to the reward pool, and the rest of the transaction is what the
\* base-coin model computes.  Encoded by running the base-coin model on a state in which the conversion has already happened.
BurnAccount == "x00cedde786b34d733d1dc96559253081572df2c6"
FeePools == PoolOf(st, Tx.gasCoin, Base)
FeePool == CHOOSE p \in FeePools : TRUE
BaseTx == [Tx EXCEPT !.gasCoin = Base]
BasePriceOfTx == IF Tx.type \in CoinTypes THEN TokenPrice(st, BaseTx) ELSE PriceFor(st, BaseTx)
CustomGasCovered ==
   /\ Delivered /\ Tx.intact /\ Tx.mut = "" /\ Code = 0 /\ "st" \in DOMAIN ev' /\ Tx.gasCoin # Base /\ st.priceCoin = Base
   /\ Tx.gasCoin \in DOMAIN st.coins /\ st.coins[Tx.gasCoin].kind = "token"
   /\ Cardinality(FeePools) = 1 /\ NoOrdersIn(FeePool) /\ FeePool \in DOMAIN st'.pools
   /\ Tx.type # "RedeemCheck"
   /\ (Supported(st, BaseTx) \/ StakingSupported(st, BaseTx) \/ CoinsSupported(st, BaseTx))
   /\ (Tx.type \in {"CreateToken", "RecreateToken", "CreateCoin", "RecreateCoin"} => Code \notin {203, 204})
Conf_CustomGas ==
   Clause("DRIFT", "ModelPredictsDeliveryPaidThroughPool", CustomGasCovered,
          LET q == st.pools[FeePool]
              fwd == q.c0 = Tx.gasCoin
              rG == IF fwd THEN q.r0 ELSE q.r1
              rB == IF fwd THEN q.r1 ELSE q.r0
              price == BasePriceOfTx
              bt == PL!BuyTrade(rG, rB, price)
              sl == PL!SellTrade(rG, rB, bt.pay)
              p2 == [q EXCEPT !.r0 = IF fwd THEN rG ++ sl.net ELSE rB -- sl.out, !.r1 = IF fwd THEN rB -- sl.out ELSE rG ++ sl.net]
              s0 == AddBal(AddBal(SubBal([st EXCEPT !.pools[FeePool] = p2], Tx.sender, Tx.gasCoin, bt.pay), BurnAccount, Tx.gasCoin, sl.burned), Tx.sender, Base, price)
              r == RunTxC(s0, BaseTx, H, Cfg, NodeLimits)
          IN /\ bt.ok /\ sl.ok /\ r.code = 0
             /\ StateDiff([r.st EXCEPT !.rewardPool = (@ -- price) ++ sl.out], st') = {},
          [at |-> WhereTx, gas |-> Tx.gasCoin, pool |-> st.pools[FeePool], poolAfter |-> st'.pools[FeePool],
           fee |-> (IF HasTag("tx_commission_amount") THEN Tag("tx_commission_amount") ELSE "")])
\* the same for a delivery that Run refuses (for a reason other than funds): the failed-transaction price is converted through the pool,
\* capped at what the sender holds of the token; a delivery rejected before Run costs nothing
CustomGasFailCovered ==
   /\ Delivered /\ Tx.intact /\ Tx.mut = "" /\ Code # 0 /\ Code # 107 /\ "st" \in DOMAIN ev' /\ Tx.gasCoin # Base /\ st.priceCoin = Base
   /\ Tx.gasCoin \in DOMAIN st.coins /\ st.coins[Tx.gasCoin].kind = "token"
   /\ Cardinality(FeePools) = 1 /\ NoOrdersIn(FeePool) /\ FeePool \in DOMAIN st'.pools
   /\ Tx.type # "RedeemCheck"
   /\ (Supported(st, BaseTx) \/ StakingSupported(st, BaseTx) \/ CoinsSupported(st, BaseTx))
   /\ (Tx.type \in {"CreateToken", "RecreateToken", "CreateCoin", "RecreateCoin"} => Code \notin {203, 204})
Conf_CustomGasFail ==
   Clause("DRIFT", "ModelPredictsFailedDeliveryPaidThroughPool", CustomGasFailCovered,
          LET q == st.pools[FeePool]
              fwd == q.c0 = Tx.gasCoin
              rG == IF fwd THEN q.r0 ELSE q.r1
              rB == IF fwd THEN q.r1 ELSE q.r0
              \* which code, and whether Run was reached at all: the base-coin model on a state in which the sender can pay
              rich == AddBal(st, Tx.sender, Base, BasePriceOfTx ++ FailPriceFor(st, BaseTx))
              r == RunTxC(rich, BaseTx, H, Cfg, NodeLimits)
              early == r.fee = Zero /\ r.st = rich
              want == PL!BuyTrade(rG, rB, FailPriceFor(st, BaseTx))
              have == Bal(st, Tx.sender, Tx.gasCoin)
              pay == IF want.ok /\ want.pay \preceq have THEN want.pay ELSE have
              sl == PL!SellTrade(rG, rB, pay)
              p2 == [q EXCEPT !.r0 = IF fwd THEN rG ++ sl.net ELSE rB -- sl.out, !.r1 = IF fwd THEN rB -- sl.out ELSE rG ++ sl.net]
              charged == AddPool(AddBal(SubBal([st EXCEPT !.pools[FeePool] = p2], Tx.sender, Tx.gasCoin, pay), BurnAccount, Tx.gasCoin, sl.burned), sl.out)
          IN /\ r.code = Code
             /\ IF early \/ pay = Zero THEN StateDiff(st, st') = {}
                ELSE sl.ok /\ StateDiff(charged, st') = {},
          [at |-> WhereTx, gas |-> Tx.gasCoin, pool |-> st.pools[FeePool], poolAfter |-> st'.pools[FeePool],
           fee |-> (IF HasTag("tx_fail_fee") THEN Tag("tx_fail_fee") ELSE "")])
ConformanceStep == Conf_Code /\ Conf_State /\ Conf_Begin /\ Conf_End /\ Conf_Commit /\ Conf_Trade /\ Conf_Liquidity /\ Conf_CustomGas /\ Conf_CustomGasFail
=============================================================================
