------------------------------- MODULE Conformance -------------------------------
(***************************************************************************)
(* Conformance of the real node to the executable model of the executor     *)
(* (Ledger.tla, Staking.tla): for every recorded delivery that the model    *)
(* covers (Send, Multisend, CreateMultisig, EditMultisig, Lock, RedeemCheck,*)
(* Delegate, Unbond, MoveStake, LockStake, SetCandidateOn/Off; commission   *)
(* and stake in the base coin, price table in the base coin, bytes as       *)
(* signed) the response code and the complete abstract state after *)
(* the call must be the ones RunTx computes from the state before the call. *)
(* A mismatch is reported as drift: the specification no longer describes   *)
(* the code (or the other way round).  It is not a verdict on any listed    *)
(* property -- those are the clauses of Props*.tla -- but it is what ties    *)
(* the model that TLC explores exhaustively to the implementation.          *)
(***************************************************************************)
EXTENDS PropsCodec, Staking

ModelCovers == /\ Delivered /\ Tx.intact /\ Tx.mut = "" /\ (Supported(st, Tx) \/ StakingSupported(st, Tx)) /\ "st" \in DOMAIN ev'
               /\ (Tx.type = "RedeemCheck" => (HasArg("issuer") /\ HasArg("proofOk")))
Predicted == RunTxS(st, Tx, H, Cfg)
Conf_Code ==
   Clause("DRIFT", "LedgerModelPredictsCode", ModelCovers, Predicted.code = Code,
          [at |-> WhereTx, predicted |-> Predicted.code])
Conf_State ==
   Clause("DRIFT", "LedgerModelPredictsState", ModelCovers /\ Predicted.code = Code,
          StateDiff(Predicted.st, st') = {},
          [at |-> WhereTx, differs |-> StateDiff(Predicted.st, st')])
ConformanceStep == Conf_Code /\ Conf_State
=============================================================================
