------------------------------- MODULE Conformance -------------------------------
(***************************************************************************)
(* Conformance of the real node to the executable model of the executor     *)
(* (Ledger.tla): for every recorded delivery that the model covers          *)
(* (Supported: Send, Multisend, CreateMultisig, EditMultisig, Lock,         *)
(* RedeemCheck, commission in the base coin, price table in the base coin,  *)
(* bytes as signed) the response code and the complete abstract state after *)
(* the call must be the ones RunTx computes from the state before the call. *)
(* A mismatch is reported as drift: the specification no longer describes   *)
(* the code (or the other way round).  It is not a verdict on any listed    *)
(* property -- those are the clauses of Props*.tla -- but it is what ties    *)
(* the model that TLC explores exhaustively to the implementation.          *)
(***************************************************************************)
EXTENDS PropsCodec, Ledger

ModelCovers == /\ Delivered /\ Tx.intact /\ Tx.mut = "" /\ Supported(st, Tx) /\ "st" \in DOMAIN ev'
               /\ (Tx.type = "RedeemCheck" => (HasArg("issuer") /\ HasArg("proofOk")))
Predicted == RunTx(st, Tx, H, Cfg.chain)
Conf_Code ==
   Clause("DRIFT", "LedgerModelPredictsCode", ModelCovers, Predicted.code = Code,
          [at |-> WhereTx, predicted |-> Predicted.code])
Conf_State ==
   Clause("DRIFT", "LedgerModelPredictsState", ModelCovers /\ Predicted.code = Code,
          StateDiff(Predicted.st, st') = {},
          [at |-> WhereTx, differs |-> StateDiff(Predicted.st, st')])
ConformanceStep == Conf_Code /\ Conf_State
=============================================================================
