------------------------------- MODULE Durability -------------------------------
(***************************************************************************)
(* Disk, memory and the consensus engine: what survives a restart, what a  *)
(* crash in the middle of Commit leaves behind, and what Tendermint does   *)
(* about it (handshake + replay).  Mirrors coreV2/minter/blockchain.go     *)
(* Commit and coreV2/appdb/appdb.go:                                       *)
(*                                                                         *)
(*   Commit(H):  events batch -> state tree SaveVersion (one atomic batch) *)
(*               -> app records one by one:  hash, height, validators      *)
(*               (when a new set is pending), block times, versions (when  *)
(*               dirty), emission (when dirty), price (when dirty).        *)
(*   memory:     cached copies of those records with dirty flags; after a  *)
(*               restart every cache is loaded lazily from the disk.       *)
(*                                                                         *)
(* The chain itself is abstracted to the sequence of executed blocks; the  *)
(* app hash is that sequence, where every block remembers the block-time   *)
(* window it was executed with (the window feeds max-gas, which is part of *)
(* the state).  An `ideal` node executes the same blocks and never stops.  *)
(* C09: with restarts only, the node is indistinguishable from the ideal.  *)
(* C10: after a crash at any write + handshake, likewise.                  *)
(***************************************************************************)
EXTENDS Integers, Sequences, FiniteSets, TLC, Json

CONSTANTS Kinds,        \* block kinds: "plain", "price" (reward price update), "version" (network update applied), "vals" (validator set update)
          MaxBlocks,
          MaxFaults,    \* restarts + crashes per behaviour
          Faults,       \* subset of {"restart", "crash", "sync"}
          AtomicApp,    \* TRUE: app records are written in one atomic batch (model of a repaired Commit)
          SnapItems,    \* the application records a state-sync snapshot carries besides the state tree (coreV2/appdb/snapshot.go)
          SnapExportsLatest  \* FALSE: a snapshot of height h exports tree version h (the code); TRUE: whatever version is the latest when it runs

VARIABLES disk, mem, ideal, tm, phase, pend, faults, scn
dvars == <<disk, mem, ideal, tm, phase, pend, faults, scn>>

Window(t) == IF Len(t) > 4 THEN SubSeq(t, Len(t) - 3, Len(t)) ELSE t

\* ---------------------------------------------------------------- the deterministic machine
Rec0 == [st |-> <<>>, height |-> 0, emission |-> 0, price |-> 0, versions |-> 0, vals |-> 0, times |-> <<>>]
\* executing block H of kind k on in-memory records r (BeginBlock .. EndBlock)
Exec(r, k, H) ==
   [r EXCEPT !.st = Append(@, <<k, r.times>>),          \* max gas of this block comes from the time window seen at BeginBlock
             !.times = Window(Append(@, H)),
             !.emission = @ + 1,
             !.price = IF k = "price" THEN H ELSE @,
             !.versions = IF k = "version" THEN @ + 1 ELSE @,
             !.vals = IF k = "vals" THEN H ELSE @,
             !.height = H]
\* snapshots: `snap` = height of the node's own latest snapshot, `snapc` = its content, `late` = height whose snapshot has
\* not started yet (the background goroutine of Commit is delayed: it will run during the next block's commit)
NoSnap == [tree |-> <<>>, hash |-> <<>>, height |-> 0, emission |-> 0, price |-> 0, versions |-> 0, vals |-> 0, times |-> <<>>]
BlankDisk == [tree |-> (0 :> <<>>), hash |-> <<>>, height |-> 0, emission |-> 0, price |-> 0, versions |-> 0, vals |-> 0, times |-> <<>>,
              snap |-> 0, snapc |-> NoSnap, late |-> 0]
Dirty0 == [versions |-> FALSE, emission |-> FALSE, price |-> FALSE, vals |-> FALSE]
DirtyAfter(d, k) == [versions |-> d.versions \/ k = "version", emission |-> TRUE, price |-> d.price \/ k = "price", vals |-> k = "vals"]

\* the writes Commit performs, in order, for memory m (records + dirty flags)
Writes(m) ==
   <<"events", "tree", "hash", "height">>
   \o (IF m.dirty.vals THEN <<"vals">> ELSE <<>>)
   \o <<"times">>
   \o (IF m.dirty.versions THEN <<"versions">> ELSE <<>>)
   \o (IF m.dirty.emission THEN <<"emission">> ELSE <<>>)
   \o (IF m.dirty.price THEN <<"price">> ELSE <<>>)
AppWrites == {"hash", "height", "vals", "times", "versions", "emission", "price"}

ApplyWrite(d, m, w) ==
   CASE w = "events" -> d
     [] w = "tree" -> [d EXCEPT !.tree = (m.r.height :> m.r.st) @@ @]
     [] w = "hash" -> [d EXCEPT !.hash = m.r.st]
     [] w = "height" -> [d EXCEPT !.height = m.r.height]
     [] w = "vals" -> [d EXCEPT !.vals = m.r.vals]
     [] w = "times" -> [d EXCEPT !.times = m.r.times]
     [] w = "versions" -> [d EXCEPT !.versions = m.r.versions]
     [] w = "emission" -> [d EXCEPT !.emission = m.r.emission]
     [] w = "price" -> [d EXCEPT !.price = m.r.price]

\* after a commit the flags the code clears are cleared (price stays dirty for ever: it is never reset)
DirtyAfterCommit(d) == [versions |-> FALSE, emission |-> FALSE, price |-> d.price, vals |-> FALSE]

\* a fresh process: every cache is loaded from the disk, the tree at the persisted height
Load(d) == [r |-> [st |-> d.tree[d.height], height |-> d.height, emission |-> d.emission, price |-> d.price,
                   versions |-> d.versions, vals |-> d.vals, times |-> d.times],
            dirty |-> Dirty0, alive |-> TRUE]

Obs(m, d) == [height |-> d.height, hash |-> d.hash, st |-> m.r.st, emission |-> m.r.emission, price |-> m.r.price,
              versions |-> m.r.versions, vals |-> d.vals]
IdealObs == [height |-> ideal.height, hash |-> ideal.st, st |-> ideal.st, emission |-> ideal.emission, price |-> ideal.price,
             versions |-> ideal.versions, vals |-> ideal.vals]

\* ---------------------------------------------------------------- behaviours
Init ==
   /\ disk = BlankDisk
   /\ mem = [r |-> Rec0, dirty |-> [Dirty0 EXCEPT !.price = TRUE], alive |-> TRUE]     \* InitChain calls SetPrice: the price flag starts dirty
   /\ ideal = Rec0
   /\ tm = [height |-> 0, kind |-> "plain"]     \* the block Tendermint has stored last
   /\ phase = "idle"
   /\ pend = <<>>
   /\ faults = 0
   /\ scn = <<>>

\* Tendermint proposes block H = tm.height + 1; both nodes execute it; the node starts its commit
Block(k) ==
   /\ phase = "idle" /\ mem.alive /\ tm.height < MaxBlocks
   /\ LET H == tm.height + 1
          m2 == [mem EXCEPT !.r = Exec(mem.r, k, H), !.dirty = DirtyAfter(mem.dirty, k)]
      IN /\ mem' = m2
         /\ ideal' = Exec(ideal, k, H)
         /\ tm' = [height |-> H, kind |-> k]
         /\ pend' = Writes(m2)
   /\ phase' = "committing"
   /\ scn' = Append(scn, [op |-> "block", kind |-> k])
   /\ UNCHANGED <<disk, faults>>

\* content of a snapshot of height h taken from disk d, exporting tree version v
Range(sq) == {sq[i] : i \in DOMAIN sq}
SItem(d, f) == IF f \in SnapItems THEN d[f] ELSE NoSnap[f]
Capture(d, h, v) == [tree |-> d.tree[v], hash |-> SItem(d, "hash"), height |-> SItem(d, "height"), emission |-> SItem(d, "emission"),
                     price |-> SItem(d, "price"), versions |-> SItem(d, "versions"), vals |-> SItem(d, "vals"), times |-> SItem(d, "times")]

\* one database write of the commit; with AtomicApp the app records go in one step
WriteOne ==
   /\ phase = "committing" /\ mem.alive /\ pend # <<>>
   /\ LET batch == IF AtomicApp /\ Head(pend) \in AppWrites THEN pend ELSE <<Head(pend)>>
          RECURSIVE ApplyAll(_, _)
          ApplyAll(d, ws) == IF ws = <<>> THEN d ELSE ApplyAll(ApplyWrite(d, mem, Head(ws)), Tail(ws))
          d1 == ApplyAll(disk, batch)
          \* a delayed snapshot of the previous height starts once this block's tree is saved: the application records on
          \* disk are still those of the previous height (they are written after the tree)
          d2 == IF "tree" \in Range(batch) /\ disk.late > 0
                THEN [d1 EXCEPT !.snap = disk.late, !.late = 0,
                                !.snapc = Capture(d1, disk.late, IF SnapExportsLatest THEN mem.r.height ELSE disk.late)]
                ELSE d1
      IN /\ pend' = SubSeq(pend, Len(batch) + 1, Len(pend))
         \* when the last write of the commit is done the node takes the snapshot of this height (background goroutine of
         \* Commit) -- at once, or late (during the next block)
         /\ IF pend' # <<>> THEN disk' = d2 /\ scn' = scn
            ELSE \E lateChoice \in (IF "latesnap" \in Faults THEN BOOLEAN ELSE {FALSE}) :
                    IF lateChoice THEN /\ disk' = [d2 EXCEPT !.late = mem.r.height]
                                       /\ scn' = [scn EXCEPT ![Len(scn)] = @ @@ [lateSnap |-> TRUE]]
                    ELSE /\ disk' = [d2 EXCEPT !.snap = mem.r.height, !.snapc = Capture(d2, mem.r.height, mem.r.height)]
                         /\ scn' = scn
   /\ IF pend' = <<>> THEN /\ phase' = "idle" /\ mem' = [mem EXCEPT !.dirty = DirtyAfterCommit(@)]
                      ELSE /\ phase' = "committing" /\ mem' = mem
   /\ UNCHANGED <<ideal, tm, faults>>

\* the process dies between two writes of a commit (the last completed write is recorded in the scenario)
Crash ==
   /\ "crash" \in Faults
   /\ tm.height > 1            \* Tendermint cannot resume a chain whose first block never committed (the application reports initialHeight-1 after InitChain)
   /\ phase = "committing" /\ mem.alive /\ pend # <<>> /\ faults < MaxFaults
   /\ Len(pend) < Len(Writes(mem))                     \* at least one write done (dying before any write is a plain replay)
   /\ mem' = [mem EXCEPT !.alive = FALSE]
   /\ phase' = "crashed"
   /\ faults' = faults + 1
   /\ scn' = [scn EXCEPT ![Len(scn)] = @ @@ [after |-> Writes(mem)[Len(Writes(mem)) - Len(pend)]]]
   /\ UNCHANGED <<disk, ideal, tm, pend>>

\* restart after a crash + Tendermint handshake: the application reports disk.height;
\* equal to the stored block: nothing is re-executed; one behind: the stored block is executed again and committed
Recover ==
   /\ phase = "crashed"
   /\ LET m0 == Load(disk)
      IN IF disk.height = tm.height THEN /\ mem' = m0 /\ disk' = disk /\ phase' = "idle"
         ELSE IF disk.height = tm.height - 1
         THEN LET m1 == [m0 EXCEPT !.r = Exec(m0.r, tm.kind, tm.height), !.dirty = DirtyAfter(m0.dirty, tm.kind)]
                  RECURSIVE ApplyAll(_, _)
                  ApplyAll(d, ws) == IF ws = <<>> THEN d ELSE ApplyAll(ApplyWrite(d, m1, Head(ws)), Tail(ws))
              IN /\ disk' = LET dd == ApplyAll(disk, Writes(m1)) IN [dd EXCEPT !.snap = tm.height, !.late = 0, !.snapc = Capture(dd, tm.height, tm.height)]
                 /\ mem' = [m1 EXCEPT !.dirty = DirtyAfterCommit(@)]
                 /\ phase' = "idle"
         ELSE /\ mem' = m0 /\ disk' = disk /\ phase' = "stuck"
   /\ pend' = <<>>
   /\ UNCHANGED <<ideal, tm, faults, scn>>

\* an orderly stop and start at a block boundary
Restart ==
   /\ "restart" \in Faults
   /\ tm.height > 0                                   \* "stopped after any committed block": not between InitChain and the first block
   /\ phase = "idle" /\ mem.alive /\ faults < MaxFaults
   /\ mem' = Load(disk)
   /\ disk' = [disk EXCEPT !.late = 0]               \* a snapshot that had not started dies with the process
   /\ faults' = faults + 1
   /\ scn' = Append(scn, [op |-> "restart"])
   /\ UNCHANGED <<ideal, tm, phase, pend>>

\* State sync (C29): the producing node's snapshot of the last committed height = the tree version of that height plus the
\* application records listed in SnapItems, read from its disk; a blank node writes them to its own disk and loads its
\* caches from there.  The restored node replaces the producer; the ideal node keeps executing every block.
\* a blank node that received snapshot content c (taken at height h)
RestoredFrom(c, h) == [BlankDisk EXCEPT !.tree = (h :> c.tree) @@ BlankDisk.tree, !.hash = c.hash, !.height = c.height, !.emission = c.emission,
                                         !.price = c.price, !.versions = c.versions, !.vals = c.vals, !.times = c.times]
Sync ==
   /\ "sync" \in Faults
   /\ tm.height > 0
   /\ phase = "idle" /\ mem.alive /\ faults < MaxFaults
   /\ disk.snap = disk.height                       \* the producer has a snapshot of its last committed height
   /\ disk' = RestoredFrom(disk.snapc, disk.snap)
   /\ mem' = Load(disk')
   /\ faults' = faults + 1
   /\ scn' = Append(scn, [op |-> "statesync", back |-> 0])
   /\ UNCHANGED <<ideal, tm, phase, pend>>
\* the latest snapshot is one block old (it was taken late, during the commit of the block after it): the restored node
\* executes the block it is behind, as Tendermint feeds it
SyncBack ==
   /\ "sync" \in Faults
   /\ phase = "idle" /\ mem.alive /\ faults < MaxFaults
   /\ disk.snap > 0 /\ disk.snap = disk.height - 1 /\ disk.height = tm.height
   /\ LET d0 == RestoredFrom(disk.snapc, disk.snap)
          m0 == Load(d0)
          m1 == [m0 EXCEPT !.r = Exec(m0.r, tm.kind, tm.height), !.dirty = DirtyAfter(m0.dirty, tm.kind)]
          RECURSIVE ApplyAll(_, _)
          ApplyAll(d, ws) == IF ws = <<>> THEN d ELSE ApplyAll(ApplyWrite(d, m1, Head(ws)), Tail(ws))
          d1 == ApplyAll(d0, Writes(m1))
      IN /\ disk' = [d1 EXCEPT !.snap = tm.height, !.snapc = Capture(d1, tm.height, tm.height)]
         /\ mem' = [m1 EXCEPT !.dirty = DirtyAfterCommit(@)]
   /\ faults' = faults + 1
   /\ scn' = Append(scn, [op |-> "statesync", back |-> 1])
   /\ UNCHANGED <<ideal, tm, phase, pend>>

Next == (\E k \in Kinds : Block(k)) \/ WriteOne \/ Crash \/ Recover \/ Restart \/ Sync \/ SyncBack
Spec == Init /\ [][Next]_dvars

\* ---------------------------------------------------------------- properties
\* at every block boundary the node shows what the ideal node shows
Transparent == (phase = "idle" /\ mem.alive) => Obs(mem, disk) = IdealObs
NeverStuck == phase # "stuck"
\* C09 is Transparent in configurations without Crash (MaxFaults counts restarts only); C10 is Transparent /\ NeverStuck with crashes
View == <<disk, mem, ideal, tm, phase, pend, faults>>
Dump == (phase = "idle" /\ tm.height = MaxBlocks) => PrintT("SCN " \o ToJson(scn))
=============================================================================
