------------------------------- MODULE PropsSync -------------------------------
(***************************************************************************)
(* Properties about several node instances that must agree:                *)
(*   C08  two instances fed the same requests answer identically           *)
(*   C11  a chain started from an export behaves like the exported chain   *)
(*   C29  a state-synced node behaves like one that executed every block   *)
(* The harness runs the instances in lockstep; every record carries what   *)
(* an outside observer sees of the node under observation (ev'.obs) and of *)
(* the reference instance (ev'.ideal).  Which property a pair of           *)
(* observations decides depends on how the second instance came to be:     *)
(*   hist.synced    it was restored from a state-sync snapshot   (C29)     *)
(*   hist.imported  it was started from an exported genesis      (C11)     *)
(*   family = "determinism"  it is a second process, same input  (C08)     *)
(***************************************************************************)
EXTENDS PropsMarkets

HasPair == /\ "obs" \in DOMAIN ev' /\ "ideal" \in DOMAIN ev'
           /\ ev'.kind \in ObsKinds \cup {"Jump"} /\ NoPanic /\ ev'.ideal.panic = ""
PairDiff == {f \in DOMAIN ev'.obs : ev'.obs[f] # ev'.ideal[f]}
PairDescr == [at |-> Where, fields |-> [f \in PairDiff |-> <<ev'.obs[f], ev'.ideal[f]>>],
              firstField |-> (IF PairDiff = {} THEN "" ELSE CHOOSE f \in PairDiff : TRUE)]
FlagOf(f) == f \in DOMAIN hist /\ hist[f]

\* ======================================================================== C08
\* everything that feeds consensus (codes, gas, data, tags, validator updates, app hash) and every query result
Deterministic == hist.cfg.family = "determinism"
C08_Same ==
   Clause("C08", "SameOnEveryInstance", HasPair /\ Deterministic, PairDiff = {}, PairDescr)
\* a panic in one process only is a difference as well
C08_SamePanic ==
   Clause("C08", "SamePanic", Deterministic /\ "obs" \in DOMAIN ev' /\ "ideal" \in DOMAIN ev',
          (ev'.panic = "") <=> (ev'.ideal.panic = ""),
          [at |-> Where, panic |-> ev'.panic, other |-> ev'.ideal.panic])
C08_Step == C08_Same /\ C08_SamePanic

\* ======================================================================== C29
Synced == FlagOf("synced")
IsRestore == IsKind("Restored")
C29_Restores ==
   Clause("C29", "RestoreSucceeds", IsRestore, ev'.panic = "", [at |-> Where, panic |-> ev'.panic])
\* the snapshot of height h has the same contents (chunk count, hash over all chunks, metadata) on every node that committed h
C29_SameSnapshot ==
   Clause("C29", "SameSnapshotOnEveryNode", IsRestore /\ NoPanic /\ "obs" \in DOMAIN ev',
          ev'.obs.snap # "none" /\ ev'.obs.snap = ev'.ideal.snap,
          [at |-> Where, producer |-> ev'.obs.snap, other |-> ev'.ideal.snap])
\* the restored node reports the producing node's height and app hash, and holds the producer's application records
C29_Info ==
   Clause("C29", "RestoredReportsProducerHeightAndHash", IsRestore /\ NoPanic /\ "obs" \in DOMAIN ev',
          /\ ev'.obs.height = ev'.h /\ ev'.obs.height = ev'.ideal.height
          /\ ev'.obs.hash = ev'.ideal.hash
          /\ ev'.obs.emission = ev'.ideal.emission /\ ev'.obs.versions = ev'.ideal.versions
          /\ ev'.obs.vals = ev'.ideal.vals /\ ev'.obs.price = ev'.ideal.price,
          PairDescr)
\* from then on: same responses, app hashes, query results (state digest, export digest, emission, versions, validators, price)
C29_Same ==
   Clause("C29", "SameAsReplayedNode", HasPair /\ Synced /\ ~IsRestore, PairDiff = {}, PairDescr)
C29_Survives ==
   Clause("C29", "RestoredNodeKeepsRunning", Synced /\ ev'.kind \in {"BeginBlock", "DeliverTx", "EndBlock", "Commit", "Restart"} /\ "ideal" \in DOMAIN ev' /\ ev'.ideal.panic = "",
          ev'.panic = "", [at |-> Where, panic |-> ev'.panic])
C29_Step == C29_Restores /\ C29_SameSnapshot /\ C29_Info /\ C29_Same /\ C29_Survives

\* ======================================================================== C11
Imported == FlagOf("imported")
IsImport == IsKind("Imported")
RTDiff == {f \in DOMAIN ev'.rt.fields : ev'.rt.fields[f] # ev'.rt2.fields[f]}
\* the exported state passes the genesis validation and a chain can be started from it
C11_Valid ==
   Clause("C11", "ExportPassesValidation", IsImport /\ "rt" \in DOMAIN ev', ev'.rt.verifyErr = "",
          [at |-> Where, error |-> ev'.rt.verifyErr])
C11_Starts ==
   Clause("C11", "ChainStartsFromExport", IsImport, ev'.panic = "", [at |-> Where, panic |-> ev'.panic])
\* the new chain exports the same state again
C11_SameState ==
   Clause("C11", "NewChainExportsSameState", IsImport /\ NoPanic /\ "rt2" \in DOMAIN ev',
          ev'.rt.d = ev'.rt2.d,
          [at |-> Where, fields |-> RTDiff])
\* and behaves like the original: same response codes, same state (order-free form) after every later call
\* (an export taken between two stake recalculations, or with pending stake updates, is "folded": the new chain recalculates at once what the
\* original recalculates at the next period boundary, so until then a pending delegation is a stake on one chain and not on the other; such
\* exports are judged on the round trip of the state only, the behaviour clause is for exports taken at a recalculation height)
Folded == FlagOf("folded")
C11_Behaves ==
   Clause("C11", "NewChainBehavesLikeOriginal", HasPair /\ Imported /\ ~IsImport /\ ~Folded,
          /\ ev'.obs.code = ev'.ideal.code
          /\ ev'.obs.stD = ev'.ideal.stD
          /\ ev'.obs.diskD = ev'.ideal.diskD,
          [at |-> Where, code |-> <<ev'.obs.code, ev'.ideal.code>>, st |-> <<ev'.obs.stD, ev'.ideal.stD>>, disk |-> <<ev'.obs.diskD, ev'.ideal.diskD>>,
           fields |-> (IF "stF" \in DOMAIN ev'.obs /\ "stF" \in DOMAIN ev'.ideal
                       THEN {f \in DOMAIN ev'.obs.stF : ev'.obs.stF[f] # ev'.ideal.stF[f]} ELSE {})])
C11_Survives ==
   Clause("C11", "NewChainKeepsRunning", Imported /\ ev'.kind \in {"BeginBlock", "DeliverTx", "EndBlock", "Commit"} /\ "ideal" \in DOMAIN ev' /\ ev'.ideal.panic = "",
          ev'.panic = "", [at |-> Where, panic |-> ev'.panic])
C11_Step == C11_Valid /\ C11_Starts /\ C11_SameState /\ C11_Behaves /\ C11_Survives

\* ======================================================================== C25
\* reader goroutines serve queries against the node while it executes; the reference twin executes the same requests alone
Concurrent == hist.cfg.family = "concurrency"
AbciKinds == {"BeginBlock", "DeliverTx", "CheckTx", "EndBlock", "Commit"}
\* what the consensus engine sees of a call; the remaining observations (digests of the query view and of the export) are what
\* API clients see
ConsFields == {"code", "gas", "tagsD", "data", "updates", "hash", "height"}
ConsDiff == PairDiff \cap ConsFields
Diverged == "diverged" \in DOMAIN hist /\ hist.diverged
PoolTradeTypes == {"SellSwapPool", "BuySwapPool", "SellAllSwapPool", "AddLimitOrder", "RemoveLimitOrder", "SellCoin", "BuyCoin", "SellAllCoin"}
\* only the first divergence of a scenario is judged: everything after it is its consequence
C25_Same ==
   Clause("C25", "SameResponsesAndHashesUnderQueries", HasPair /\ Concurrent /\ ~Diverged, ConsDiff = {},
          [at |-> Where, fields |-> [f \in ConsDiff |-> <<ev'.obs[f], ev'.ideal[f]>>],
           firstField |-> (IF ConsDiff = {} THEN "" ELSE CHOOSE f \in ConsDiff : TRUE),
           txType |-> (IF "tx" \in DOMAIN ev' THEN ev'.tx.type ELSE ""),
           cause |-> (IF IsKind("DeliverTx") /\ ev'.tx.type \in PoolTradeTypes /\ "tagsD" \in ConsDiff /\ "code" \notin ConsDiff
                      THEN "pool-trade-result-differs" ELSE "other")])
\* diagnostic: what queries show (state digest through the read API, export digest) is the same as on a node without query load
C25_QueryView ==
   Clause("C25", "QueryViewUnchangedByQueries", HasPair /\ Concurrent /\ ~Diverged /\ ConsDiff = {}, PairDiff = {}, PairDescr)
C25_NoCrash ==
   Clause("C25", "ExecutionSurvivesQueries", Concurrent /\ ev'.kind \in AbciKinds \cup {"Fatal"},
          ev'.panic = "" /\ ev'.kind # "Fatal",
          [at |-> Where, panic |-> ev'.panic])
C25_QueriesSurvive ==
   Clause("C25", "QueriesDoNotPanic", Concurrent /\ ev'.kind \in AbciKinds \cup {"Queries"},
          "queryPanic" \notin DOMAIN ev',
          [at |-> Where, panic |-> (IF "queryPanic" \in DOMAIN ev' THEN ev'.queryPanic ELSE "")])
C25_Step == C25_Same /\ C25_QueryView /\ C25_NoCrash /\ C25_QueriesSurvive

SyncStep == C08_Step /\ C29_Step /\ C11_Step /\ C25_Step
=============================================================================
