------------------------------- MODULE Coins -------------------------------
(***************************************************************************)
(* The token part of the coin registry as pure functions on the abstract   *)
(* state: Run of CreateToken, RecreateToken, EditCoinOwner, MintToken,      *)
(* BurnToken (coreV2/transaction/{create_token,recreate_token,              *)
(* edit_coin_owner,mint_coin,burn_token_v260}.go) and the ticker fee that    *)
(* the executor burns after a successful CreateToken.                       *)
(* A coin is coins[id] = [sym, ver, kind, vol, res, crr, max, owner, mint,  *)
(* burn]; the active coin of a ticker has ver = 0 and carries the ticker's  *)
(* owner; recreating a ticker archives the active coin under the next       *)
(* version number (without an owner) and creates a new coin with the next   *)
(* unused id.  Scope: commission in the base coin, base-coin price table,   *)
(* ticker and name well-formed.                                             *)
(***************************************************************************)
EXTENDS Staking

CoinAlreadyExists == 201
WrongCoinSupply == 205
WrongCoinEmission == 206
IsNotOwnerOfCoin == 206
CoinNotMintable == 801
CoinNotBurnable == 802
WrongCrr == 202
\* lim: the registry's limits [lim.maxSupply (10^15 coins in the node), minSupply (1 coin), minReserve (10 000 base coins)]; a model states small ones

CoinTypes == {"CreateToken", "RecreateToken", "EditCoinOwner", "MintToken", "BurnToken", "CreateCoin", "RecreateCoin"}
CoinsSupported(s, tx) == tx.type \in CoinTypes /\ tx.gasCoin = Base /\ s.priceCoin = Base

ActiveOf(s, sym) == {c \in DOMAIN s.coins : s.coins[c].sym = sym /\ s.coins[c].ver = 0}
TheActive(s, sym) == CHOOSE c \in ActiveOf(s, sym) : TRUE
TickerPrice(s, n) == CASE n = 3 -> PT(s).CreateTicker3 [] n = 4 -> PT(s).CreateTicker4 [] n = 5 -> PT(s).CreateTicker5
                       [] n = 6 -> PT(s).CreateTicker6 [] OTHER -> PT(s).CreateTicker7to10
TokenPrice(s, tx) ==
   tx.gasPrice ** ((CASE tx.type = "CreateToken" -> PT(s).CreateToken ++ TickerPrice(s, tx.args.symbolLen)
                      [] tx.type = "CreateCoin" -> PT(s).CreateCoin ++ TickerPrice(s, tx.args.symbolLen)
                      [] tx.type = "RecreateCoin" -> PT(s).RecreateCoin
                      [] tx.type = "RecreateToken" -> PT(s).RecreateToken
                      [] tx.type = "EditCoinOwner" -> PT(s).EditTickerOwner
                      [] tx.type = "MintToken" -> PT(s).MintToken
                      [] tx.type = "BurnToken" -> PT(s).BurnToken) ++ (Nat2A(tx.bytes) ** PT(s).PayloadByte))
PaidT(s, tx) == LET fee == TokenPrice(s, tx) IN SetNonce(AddPool(SubBal(s, tx.sender, Base, fee), fee), tx.sender, tx.nonce)
ResT(code, s, tx) == Res(code, s, TokenPrice(s, tx))
ShortT(s, tx) == Bal(s, tx.sender, Base) \prec TokenPrice(s, tx)

SupplyBad(a, lim) == \/ (~a.mintable /\ a.amount # a.max)
                      \/ a.amount \prec One \/ a.max \prec a.amount
                      \/ lim.maxSupply \prec a.max
NewToken(tx, sym, owner) == [sym |-> sym, ver |-> 0, kind |-> "token", vol |-> tx.args.amount, res |-> Zero, crr |-> 0, max |-> tx.args.max,
                             owner |-> owner, mint |-> tx.args.mintable, burn |-> tx.args.burnable]
AddCoin(s, tx, sym, owner) ==
   LET id == ToString(s.nextCoin)
   IN AddBal([s EXCEPT !.coins = (id :> NewToken(tx, sym, owner)) @@ @, !.nextCoin = @ + 1], tx.sender, id, tx.args.amount)

\* the price of the ticker is burned: it leaves the reward pool for the zero address
RunCreateToken(s, tx, lim) ==
   LET a == tx.args  burnt == tx.gasPrice ** TickerPrice(s, a.symbolLen)
   IN IF ActiveOf(s, a.symbol) # {} THEN FailWith(CoinAlreadyExists, s, tx, tx.sender)
      ELSE IF SupplyBad(a, lim) THEN FailWith(WrongCoinSupply, s, tx, tx.sender)
      ELSE IF ShortT(s, tx) THEN FailWith(InsufficientFunds, s, tx, tx.sender)
      ELSE LET s1 == AddCoin(PaidT(s, tx), tx, a.symbol, tx.sender)
           IN ResT(OK, AddBal([s1 EXCEPT !.rewardPool = @ -- burnt], "zero", Base, burnt), tx)
\* a coin with a reserve: the reserve is taken from the creator together with the commission; the ticker's price is burned
NewCoin(tx, owner) == [sym |-> tx.args.symbol, ver |-> 0, kind |-> "bancor", vol |-> tx.args.amount, res |-> tx.args.reserve, crr |-> tx.args.crr,
                       max |-> tx.args.max, owner |-> owner, mint |-> FALSE, burn |-> FALSE]
AddReserveCoin(s, tx) ==
   LET id == ToString(s.nextCoin)
   IN AddBal(SubBal([s EXCEPT !.coins = (id :> NewCoin(tx, tx.sender)) @@ @, !.nextCoin = @ + 1], tx.sender, Base, tx.args.reserve), tx.sender, id, tx.args.amount)
CoinShort(s, tx) == Bal(s, tx.sender, Base) \prec (tx.args.reserve ++ TokenPrice(s, tx))
RunCreateCoin(s, tx, lim) ==
   LET a == tx.args  burnt == tx.gasPrice ** TickerPrice(s, a.symbolLen)
   IN IF ActiveOf(s, a.symbol) # {} THEN FailWith(CoinAlreadyExists, s, tx, tx.sender)
      ELSE IF lim.maxSupply \prec a.max \/ a.amount \prec lim.minSupply \/ a.max \prec a.amount \/ a.reserve \prec lim.minReserve THEN FailWith(WrongCoinSupply, s, tx, tx.sender)
      ELSE IF a.crr < 10 \/ a.crr > 100 THEN FailWith(WrongCrr, s, tx, tx.sender)
      ELSE IF CoinShort(s, tx) THEN FailWith(InsufficientFunds, s, tx, tx.sender)
      ELSE LET s1 == AddReserveCoin(PaidT(s, tx), tx)
           IN ResT(OK, AddBal([s1 EXCEPT !.rewardPool = @ -- burnt], "zero", Base, burnt), tx)
MaxVer(s, sym) == LET vs == {s.coins[c].ver : c \in {x \in DOMAIN s.coins : s.coins[x].sym = sym}} IN CHOOSE v \in vs : \A w \in vs : w <= v
RunRecreateToken(s, tx, lim) ==
   LET a == tx.args
   IN IF SupplyBad(a, lim) THEN FailWith(WrongCoinSupply, s, tx, tx.sender)
      ELSE IF ActiveOf(s, a.symbol) = {} THEN FailWith(CoinNotExists, s, tx, tx.sender)
      ELSE IF s.coins[TheActive(s, a.symbol)].owner # tx.sender THEN FailWith(IsNotOwnerOfCoin, s, tx, tx.sender)
      ELSE IF ShortT(s, tx) THEN FailWith(InsufficientFunds, s, tx, tx.sender)
      ELSE LET old == TheActive(s, a.symbol)
               s1 == [PaidT(s, tx) EXCEPT !.coins[old].ver = MaxVer(s, a.symbol) + 1, !.coins[old].owner = ""]
           IN ResT(OK, AddCoin(s1, tx, a.symbol, tx.sender), tx)
RunRecreateCoin(s, tx, lim) ==
   LET a == tx.args
   IN IF a.amount \prec lim.minSupply \/ a.max \prec a.amount \/ lim.maxSupply \prec a.max \/ a.reserve \prec lim.minReserve THEN FailWith(WrongCoinSupply, s, tx, tx.sender)
      ELSE IF a.crr < 10 \/ a.crr > 100 THEN FailWith(WrongCrr, s, tx, tx.sender)
      ELSE IF ActiveOf(s, a.symbol) = {} THEN FailWith(CoinNotExists, s, tx, tx.sender)
      ELSE IF s.coins[TheActive(s, a.symbol)].owner # tx.sender THEN FailWith(IsNotOwnerOfCoin, s, tx, tx.sender)
      ELSE IF CoinShort(s, tx) THEN FailWith(InsufficientFunds, s, tx, tx.sender)
      ELSE LET old == TheActive(s, a.symbol)
               s1 == [PaidT(s, tx) EXCEPT !.coins[old].ver = MaxVer(s, a.symbol) + 1, !.coins[old].owner = ""]
           IN ResT(OK, AddReserveCoin(s1, tx), tx)
RunEditCoinOwner(s, tx) ==
   LET a == tx.args
   IN IF ActiveOf(s, a.symbol) = {} THEN FailWith(CoinNotExists, s, tx, tx.sender)
      ELSE IF s.coins[TheActive(s, a.symbol)].owner # tx.sender THEN FailWith(IsNotOwnerOfCoin, s, tx, tx.sender)
      ELSE IF ShortT(s, tx) THEN FailWith(InsufficientFunds, s, tx, tx.sender)
      ELSE ResT(OK, [PaidT(s, tx) EXCEPT !.coins[TheActive(s, a.symbol)].owner = a.newOwner], tx)
RunMintToken(s, tx) ==
   LET a == tx.args  c == a.coin
   IN IF c \notin DOMAIN s.coins THEN FailWith(CoinNotExists, s, tx, tx.sender)
      ELSE IF ~s.coins[c].mint THEN FailWith(CoinNotMintable, s, tx, tx.sender)
      ELSE IF s.coins[c].max \prec (s.coins[c].vol ++ a.value) THEN FailWith(WrongCoinEmission, s, tx, tx.sender)
      ELSE IF s.coins[c].ver # 0 \/ s.coins[c].owner # tx.sender THEN FailWith(IsNotOwnerOfCoin, s, tx, tx.sender)
      ELSE IF ShortT(s, tx) THEN FailWith(InsufficientFunds, s, tx, tx.sender)
      ELSE ResT(OK, AddBal([PaidT(s, tx) EXCEPT !.coins[c].vol = @ ++ a.value], tx.sender, c, a.value), tx)
RunBurnToken(s, tx) ==
   LET a == tx.args  c == a.coin
   IN IF c \notin DOMAIN s.coins THEN FailWith(CoinNotExists, s, tx, tx.sender)
      ELSE IF ~s.coins[c].burn THEN FailWith(CoinNotBurnable, s, tx, tx.sender)
      ELSE IF (s.coins[c].vol -- a.value) \prec One THEN FailWith(WrongCoinEmission, s, tx, tx.sender)
      ELSE IF ShortT(s, tx) \/ Bal(s, tx.sender, c) \prec a.value THEN FailWith(InsufficientFunds, s, tx, tx.sender)
      ELSE ResT(OK, SubBal([PaidT(s, tx) EXCEPT !.coins[c].vol = @ -- a.value], tx.sender, c, a.value), tx)

\* the executor for the three families
RunTxC(s, tx, h, cfg, lim) ==
   IF tx.type \notin CoinTypes THEN RunTxS(s, tx, h, cfg)
   ELSE IF ~tx.intact \/ Malleated(tx) THEN Reject(DecodeError, s)
   ELSE IF tx.chain # cfg.chain THEN Reject(WrongChainID, s)
   ELSE IF ~CoinExists(s, tx.gasCoin) THEN Reject(CoinNotExists, s)
   ELSE IF tx.multi /\ MultisigCode(s, tx) # OK THEN Reject(MultisigCode(s, tx), s)
   ELSE IF tx.nonce # NonceOf(s, tx.sender) + 1 THEN Reject(WrongNonce, s)
   ELSE CASE tx.type = "CreateToken" -> RunCreateToken(s, tx, lim)
          [] tx.type = "RecreateToken" -> RunRecreateToken(s, tx, lim)
          [] tx.type = "EditCoinOwner" -> RunEditCoinOwner(s, tx)
          [] tx.type = "MintToken" -> RunMintToken(s, tx)
          [] tx.type = "BurnToken" -> RunBurnToken(s, tx)
          [] tx.type = "CreateCoin" -> RunCreateCoin(s, tx, lim)
          [] tx.type = "RecreateCoin" -> RunRecreateCoin(s, tx, lim)
=============================================================================
