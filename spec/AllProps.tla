------------------------------- MODULE AllProps -------------------------------
(* All property clauses, conjoined: what the trace specification evaluates at every recorded step. *)
EXTENDS Conformance

LeanProps == C07_Step /\ C09_Step /\ C10_Step /\ SyncStep
StepProps == LedgerProps /\ C09_Step /\ C10_Step /\ StakingStep /\ MarketsStep /\ SyncStep /\ C28_Step /\ C23_Step /\ ConformanceStep
=============================================================================
