------------------------------- MODULE AllProps -------------------------------
(* All property clauses, conjoined: what the trace specification evaluates at every recorded step. *)
EXTENDS PropsMarkets

LeanProps == C07_Step /\ C09_Step /\ C10_Step
StepProps == LedgerProps /\ C09_Step /\ C10_Step /\ StakingStep /\ MarketsStep
=============================================================================
