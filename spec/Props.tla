------------------------------- MODULE Props -------------------------------
(***************************************************************************)
(* The listed properties C01..C29 as named TLA+ formulas over              *)
(*   st    the abstract chain state after the last step (see State.tla)    *)
(*   disk  the state as read back from disk at the last commit             *)
(*   ev    the last step: [kind, h, tx, check, resp, begin, end, hash, panic] *)
(*   hist  history: what was accepted / delivered / committed before       *)
(* Every property is a conjunction of clauses written with Clause(...).    *)
(* Step clauses are action-level (they mention st and st'); the model      *)
(* checker uses them as [][...]_vars, the trace specification evaluates    *)
(* them on every recorded step of the real node.                           *)
(***************************************************************************)
EXTENDS State, Json

CONSTANT Strict     \* TRUE: a false clause is FALSE (model checking, replay); FALSE: it is reported and evaluation goes on

VARIABLES st, disk, ev, hist
pvars == <<st, disk, ev, hist>>

\* ---------------------------------------------------------------- clause machinery
CovReg == 7
CountClause(name) == LET m == TLCGet(CovReg)
                     IN TLCSet(CovReg, IF name \in DOMAIN m THEN [m EXCEPT ![name] = @ + 1] ELSE m @@ (name :> 1))
Clause(prop, name, ante, cons, descr) ==
   IF ~ante THEN TRUE
   ELSE /\ (Strict \/ CountClause(prop \o "." \o name))
        /\ IF cons THEN TRUE
           ELSE IF Strict THEN FALSE
           ELSE PrintT("VIOL " \o ToJson([prop |-> prop, clause |-> name, descr |-> descr]))

\* ---------------------------------------------------------------- event helpers (primed: the step being taken)
IsKind(k) == ev'.kind = k
Tx == ev'.tx
Code == ev'.resp.code
Tags == ev'.resp.tags
Tag(k) == IF k \in DOMAIN Tags THEN Tags[k] ELSE ""
HasTag(k) == k \in DOMAIN Tags
NoPanic == ev'.panic = ""
Delivered == IsKind("DeliverTx") /\ NoPanic
Where == [sc |-> ev'.sc, i |-> ev'.i, kind |-> ev'.kind, h |-> ev'.h]
WhereTx == [sc |-> ev'.sc, i |-> ev'.i, h |-> ev'.h, tx |-> Tx.id, type |-> Tx.type, code |-> Code, mut |-> Tx.mut]
Arg(k) == Tx.args[k]
HasArg(k) == k \in DOMAIN Tx.args

Payer == IF Tx.type = "RedeemCheck" /\ HasArg("issuer") THEN Arg("issuer") ELSE Tx.sender

\* who may lose value through this transaction (ground truth from the harness: who really signed)
Authorized ==
   (IF ~Tx.intact THEN {}
    ELSE IF Tx.multi
         THEN (IF MsigAuthorizes(st, Tx.from, Tx.signedBy) THEN {Tx.from} ELSE {})
         ELSE {Tx.sender})
   \cup (IF Tx.type = "RedeemCheck" /\ HasArg("issuer") THEN {Arg("issuer")} ELSE {})

\* ---------------------------------------------------------------- price table (C27)
P == st.price
TypePrice ==
   CASE Tx.type = "Send" -> P.Send
     [] Tx.type = "Multisend" -> P.MultisendBase ++ (Nat2A(Len(Arg("list")) - 1) ** P.MultisendDelta)
     [] Tx.type = "CreateMultisig" -> P.CreateMultisig
     [] Tx.type = "EditMultisig" -> P.EditMultisig
     [] Tx.type = "RedeemCheck" -> P.RedeemCheck
     [] Tx.type = "Lock" -> P.Lock
     [] Tx.type = "LockStake" -> P.LockStake
     [] Tx.type = "SellCoin" -> P.SellBancor
     [] Tx.type = "SellAllCoin" -> P.SellAllBancor
     [] Tx.type = "BuyCoin" -> P.BuyBancor
     [] Tx.type = "CreateCoin" -> P.CreateCoin
     [] Tx.type = "CreateToken" -> P.CreateToken
     [] Tx.type = "RecreateCoin" -> P.RecreateCoin
     [] Tx.type = "RecreateToken" -> P.RecreateToken
     [] Tx.type = "EditCoinOwner" -> P.EditTickerOwner
     [] Tx.type = "MintToken" -> P.MintToken
     [] Tx.type = "BurnToken" -> P.BurnToken
     [] Tx.type = "DeclareCandidacy" -> P.DeclareCandidacy
     [] Tx.type = "Delegate" -> P.Delegate
     [] Tx.type = "Unbond" -> P.Unbond
     [] Tx.type = "MoveStake" -> P.MoveStake
     [] Tx.type = "SetCandidateOn" -> P.SetCandidateOn
     [] Tx.type = "SetCandidateOff" -> P.SetCandidateOff
     [] Tx.type = "EditCandidate" -> P.EditCandidate
     [] Tx.type = "EditCandidateCommission" -> P.EditCandidateCommission
     [] Tx.type = "EditCandidatePublicKey" -> P.EditCandidatePublicKey
     [] Tx.type = "SetHaltBlock" -> P.SetHaltBlock
     [] Tx.type = "VoteCommission" -> P.VoteCommission
     [] Tx.type = "VoteUpdate" -> P.VoteUpdate
     [] Tx.type = "CreateSwapPool" -> P.CreateSwapPool
     [] Tx.type = "AddLiquidity" -> P.AddLiquidity
     [] Tx.type = "RemoveLiquidity" -> P.RemoveLiquidity
     [] Tx.type = "SellSwapPool" -> P.SellPoolBase ++ (Nat2A(Len(Arg("coins")) - 2) ** P.SellPoolDelta)
     [] Tx.type = "BuySwapPool" -> P.BuyPoolBase ++ (Nat2A(Len(Arg("coins")) - 2) ** P.BuyPoolDelta)
     [] Tx.type = "SellAllSwapPool" -> P.SellAllPoolBase ++ (Nat2A(Len(Arg("coins")) - 2) ** P.SellAllPoolDelta)
     [] Tx.type = "AddLimitOrder" -> P.AddLimitOrder
     [] Tx.type = "RemoveLimitOrder" -> P.RemoveLimitOrder
     [] OTHER -> Zero
SymbolPrice(n) ==   \* n = number of characters of the ticker
   CASE n = 3 -> P.CreateTicker3 [] n = 4 -> P.CreateTicker4 [] n = 5 -> P.CreateTicker5
     [] n = 6 -> P.CreateTicker6 [] OTHER -> P.CreateTicker7to10
CreatesTicker == Tx.type \in {"CreateCoin", "CreateToken"}
TickerPart == IF CreatesTicker THEN Tx.gasPrice ** SymbolPrice(Arg("symbolLen")) ELSE Zero
\* commission in price-table terms: gas price x (type price [+ ticker price] + bytes x byte price)
PriceOf == Tx.gasPrice ** (TypePrice ++ (IF CreatesTicker THEN SymbolPrice(Arg("symbolLen")) ELSE Zero)
                               ++ (Nat2A(Tx.bytes) ** P.PayloadByte))
FailPriceOf == Tx.gasPrice ** (P.FailedTx ++ (Nat2A(Tx.bytes) ** P.PayloadByte))
BasePriced == st.priceCoin = Base
BaseGas == Tx.gasCoin = Base

\* ======================================================================== C01
\* supply conservation; base coin total moves only by the emission counter
CustomConserved(s) == \A c \in DOMAIN s.coins : s.coins[c].vol = Holdings(s, c)
BadCoins(s) == {c \in DOMAIN s.coins : s.coins[c].vol # Holdings(s, c)}

C01_CommitCustom ==
   Clause("C01", "CommitCustom", IsKind("Commit") /\ NoPanic, CustomConserved(disk'),
          [at |-> Where, coins |-> [c \in BadCoins(disk') |-> [vol |-> disk'.coins[c].vol, held |-> Holdings(disk', c)]]])
C01_CommitBase ==
   Clause("C01", "CommitBase", IsKind("Commit") /\ NoPanic /\ hist.cValid,
          BaseTotal(disk') -- hist.cBase = st'.emission -- hist.cEmission,
          [at |-> Where, baseBefore |-> hist.cBase, baseAfter |-> BaseTotal(disk'), emBefore |-> hist.cEmission, emAfter |-> st'.emission])
\* diagnostic step-level clauses: which call broke the balance
C01_StepDeliver ==
   Clause("C01", "StepDeliver", Delivered,
          /\ BaseTotal(st') ++ st'.rewardPool = BaseTotal(st) ++ st.rewardPool
          /\ CustomConserved(st'),
          [at |-> WhereTx, before |-> BaseTotal(st) ++ st.rewardPool, after |-> BaseTotal(st') ++ st'.rewardPool, coins |-> BadCoins(st')])
C01_StepBegin ==
   Clause("C01", "StepBegin", IsKind("BeginBlock") /\ NoPanic,
          BaseTotal(st') = BaseTotal(st) /\ CustomConserved(st'),
          [at |-> Where, before |-> BaseTotal(st), after |-> BaseTotal(st'), coins |-> BadCoins(st')])
C01_StepEnd ==
   Clause("C01", "StepEnd", IsKind("EndBlock") /\ NoPanic,
          /\ BaseTotal(st') = (BaseTotal(st) ++ st.rewardPool) ++ (st'.emission -- st.emission)
          /\ CustomConserved(st'),
          [at |-> Where, before |-> BaseTotal(st), pool |-> st.rewardPool, after |-> BaseTotal(st'), em |-> st'.emission -- st.emission, coins |-> BadCoins(st')])
C01_Step == C01_CommitCustom /\ C01_CommitBase /\ C01_StepDeliver /\ C01_StepBegin /\ C01_StepEnd

\* ======================================================================== C02
NonNegative(s) == \A i \in DOMAIN AllAmounts(s) : Zero \preceq AllAmounts(s)[i]
WithinMax(s) == \A c \in DOMAIN s.coins : s.coins[c].vol \preceq s.coins[c].max
PoolsPositive(s) == \A p \in DOMAIN s.pools : Zero \prec s.pools[p].r0 /\ Zero \prec s.pools[p].r1
C02_State(s) == NonNegative(s) /\ WithinMax(s) /\ PoolsPositive(s)
C02_Commit ==
   Clause("C02", "Commit", IsKind("Commit") /\ NoPanic, C02_State(disk'),
          [at |-> Where, nonneg |-> NonNegative(disk'), max |-> WithinMax(disk'), pools |-> PoolsPositive(disk')])
C02_Mem ==
   Clause("C02", "MemDiag", NoPanic /\ ev'.kind \in {"DeliverTx", "BeginBlock", "EndBlock"}, C02_State(st'),
          [at |-> Where, nonneg |-> NonNegative(st'), max |-> WithinMax(st'), pools |-> PoolsPositive(st')])
C02_Step == C02_Commit /\ C02_Mem

\* ======================================================================== C03
\* a rejected delivery changes nothing but the failure fee; an accepted one bumps the sender's nonce by one
FailFields == {"bal", "rewardPool", "coins", "pools", "orders", "h"}
BalDecreases == {<<a, c>> \in AllAccounts(st, st') \X AllCoins(st, st') : Bal(st', a, c) \prec Bal(st, a, c)}
C03_Frame ==
   Clause("C03", "Frame", Delivered /\ Code # 0,
          /\ SameExcept(st, st', FailFields)
          /\ BalDecreases \subseteq {<<Payer, Tx.gasCoin>>}
          /\ Tx.gasCoin = Base => /\ SameExcept(st, st', {"bal", "rewardPool", "h"})
                                  /\ st'.rewardPool -- st.rewardPool = Bal(st, Payer, Base) -- Bal(st', Payer, Base)
                                  /\ \A a \in AllAccounts(st, st'), c \in AllCoins(st, st') :
                                        <<a, c>> # <<Payer, Base>> => Bal(st', a, c) = Bal(st, a, c),
          [at |-> WhereTx, changed |-> DiffFields(st, st'), decreases |-> BalDecreases, payer |-> Payer])
C03_FeeCap ==
   Clause("C03", "FeeCap", Delivered /\ Code # 0 /\ BaseGas /\ BasePriced /\ Tx.intact,
          LET paid == Bal(st, Payer, Base) -- Bal(st', Payer, Base)
          IN paid = Zero \/ paid = AMin(Bal(st, Payer, Base), FailPriceOf),
          [at |-> WhereTx, paid |-> Bal(st, Payer, Base) -- Bal(st', Payer, Base), expected |-> FailPriceOf, balance |-> Bal(st, Payer, Base)])
C03_NonceOk ==
   Clause("C03", "NonceOnSuccess", Delivered /\ Code = 0 /\ Tx.intact,
          /\ NonceOf(st', Tx.sender) = NonceOf(st, Tx.sender) + 1
          /\ \A a \in (DOMAIN st.nonce \cup DOMAIN st'.nonce) \ {Tx.sender} : NonceOf(st', a) = NonceOf(st, a),
          [at |-> WhereTx, before |-> st.nonce, after |-> st'.nonce])
C03_NonceFail ==
   Clause("C03", "NonceOnFailure", Delivered /\ Code # 0, st'.nonce = st.nonce,
          [at |-> WhereTx, before |-> st.nonce, after |-> st'.nonce])
C03_Step == C03_Frame /\ C03_FeeCap /\ C03_NonceOk /\ C03_NonceFail

\* ======================================================================== C04
C04_Accept ==
   Clause("C04", "AcceptInOrder", Delivered /\ Code = 0 /\ Tx.intact,
          Tx.nonce = NonceOf(st, Tx.sender) + 1 /\ Tx.chain = hist.cfg.chain,
          [at |-> WhereTx, nonce |-> Tx.nonce, have |-> NonceOf(st, Tx.sender), chain |-> Tx.chain])
C04_Once ==
   Clause("C04", "Once", Delivered /\ Tx.hash \in hist.accepted, Code # 0,
          [at |-> WhereTx, dupOf |-> Tx.dupOf])
C04_Stale ==
   Clause("C04", "Stale", Delivered /\ Tx.intact /\ Tx.nonce <= NonceOf(st, Tx.sender), Code # 0,
          [at |-> WhereTx, nonce |-> Tx.nonce, have |-> NonceOf(st, Tx.sender)])
C04_Step == C04_Accept /\ C04_Once /\ C04_Stale

\* ======================================================================== C05 (balances part)
C05_Bal ==
   Clause("C05", "BalanceAuthorized", Delivered,
          \A d \in BalDecreases : d[1] \in Authorized,
          [at |-> WhereTx, decreases |-> BalDecreases, authorized |-> Authorized, signedBy |-> Tx.signedBy, intact |-> Tx.intact])
C05_Protocol ==
   Clause("C05", "ProtocolStepsTakeNoBalance", NoPanic /\ ev'.kind \in {"BeginBlock", "EndBlock", "Commit", "CheckTx"},
          BalDecreases = {},
          [at |-> Where, decreases |-> BalDecreases])
C05_Step == C05_Bal /\ C05_Protocol

\* ======================================================================== C06
C06_Agree ==
   Clause("C06", "CheckEqualsDeliver", Delivered /\ ev'.check >= 0,
          (ev'.check = 0) <=> (Code = 0),
          [at |-> WhereTx, check |-> ev'.check])
C06_ReadOnly ==
   Clause("C06", "CheckTxReadOnly", IsKind("CheckTx") /\ NoPanic, st' = st,
          [at |-> Where, changed |-> DiffFields(st, st')])
C06_Step == C06_Agree /\ C06_ReadOnly

\* ======================================================================== C07
C07_NoPanic ==
   Clause("C07", "NoPanic", ev'.kind \in {"Init", "BeginBlock", "DeliverTx", "CheckTx", "EndBlock", "Commit", "Restart"},
          ev'.panic = "" \/ ev'.kind = "Restart",
          [at |-> Where, panic |-> ev'.panic, stack |-> (IF "stack" \in DOMAIN ev' THEN ev'.stack ELSE ""),
           tx |-> (IF "tx" \in DOMAIN ev' THEN [id |-> ev'.tx.id, type |-> ev'.tx.type, mut |-> ev'.tx.mut] ELSE [id |-> "", type |-> "", mut |-> ""])])
C07_Step == C07_NoPanic

\* ======================================================================== C26
C26_ChargedOnce ==
   Clause("C26", "ChargedOnce", Delivered /\ Tx.hash \in DOMAIN hist.seen,
          Code # 0 /\ st'.bal = st.bal /\ st'.rewardPool = st.rewardPool,
          [at |-> WhereTx, firstOutcome |-> (IF hist.seen[Tx.hash] = 0 THEN "accepted" ELSE "failed"), firstCode |-> hist.seen[Tx.hash],
           nonceAdvanced |-> (NonceOf(st, Tx.sender) >= Tx.nonce), type |-> Tx.type])
C26_Step == C26_ChargedOnce

\* ======================================================================== C27 (base-priced table, base gas coin)
PoolGain == st'.rewardPool -- st.rewardPool
C27_Amount ==
   Clause("C27", "AmountBase", Delivered /\ Code = 0 /\ BaseGas /\ BasePriced /\ Tx.intact,
          /\ Tag("tx_commission_in_base_coin") = PriceOf
          /\ Tag("tx_commission_amount") = PriceOf,
          [at |-> WhereTx, expected |-> PriceOf, inBase |-> Tag("tx_commission_in_base_coin"), amount |-> Tag("tx_commission_amount")])
C27_Pool ==
   Clause("C27", "RewardPool", Delivered /\ Code = 0 /\ BaseGas /\ BasePriced /\ Tx.intact,
          /\ PoolGain = PriceOf -- TickerPart
          /\ CreatesTicker => Bal(st', "zero", Base) -- Bal(st, "zero", Base) = TickerPart,
          [at |-> WhereTx, expected |-> PriceOf -- TickerPart, gain |-> PoolGain, ticker |-> TickerPart])
\* a rejected delivery is charged gas price x (failed-transaction price + bytes x byte price), capped at the payer's balance
C27_Failed ==
   Clause("C27", "FailureFeeFromPriceTable", Delivered /\ Code # 0 /\ BaseGas /\ BasePriced /\ Tx.intact,
          LET paid == Bal(st, Payer, Base) -- Bal(st', Payer, Base)
          IN /\ paid = Zero \/ paid = AMin(Bal(st, Payer, Base), FailPriceOf)
             /\ st'.rewardPool -- st.rewardPool = paid,
          [at |-> WhereTx, paid |-> Bal(st, Payer, Base) -- Bal(st', Payer, Base), expected |-> FailPriceOf, gasPrice |-> Tx.gasPrice, bytes |-> Tx.bytes])
C27_Step == C27_Amount /\ C27_Pool /\ C27_Failed

\* ======================================================================== all step clauses of the ledger family
\* ======================================================================== C09 / C10 / C29 (twin scenarios)
\* Scenarios of the durability family run an ideal node (never stopped, never crashed) in lockstep; every record
\* carries what an outside observer sees of both: response, app hash, Info, digests of the current-state queries and of
\* the export of the committed state, emission, versions, validators, price record.
ObsKinds == {"Init", "BeginBlock", "DeliverTx", "EndBlock", "Commit", "Restart", "Recovered", "Restored"}
HasObs == /\ "obs" \in DOMAIN ev' /\ "ideal" \in DOMAIN ev'
          /\ ev'.kind \in ObsKinds /\ NoPanic /\ ev'.ideal.panic = ""
ObsDiff == {f \in DOMAIN ev'.obs : ev'.obs[f] # ev'.ideal[f]}
ObsDescr == [at |-> Where, fields |-> [f \in ObsDiff |-> <<ev'.obs[f], ev'.ideal[f]>>], fault |-> hist.lastFault,
             restarts |-> hist.restarts, firstField |-> (IF ObsDiff = {} THEN "" ELSE CHOOSE f \in ObsDiff : TRUE)]
C09_Same ==
   Clause("C09", "SameAsNeverStopped", HasObs /\ (hist.restarts > 0 \/ IsKind("Restart")) /\ ~hist.crashed /\ ~hist.synced
                                        /\ ~("imported" \in DOMAIN hist /\ hist.imported),
          ObsDiff = {}, ObsDescr)
C09_Boots ==
   Clause("C09", "RestartSucceeds", ev'.kind \in {"Restart", "Recover"}, ev'.panic = "",
          [at |-> Where, panic |-> ev'.panic, fault |-> hist.lastFault])
C09_Step == C09_Same /\ C09_Boots
C10_Height ==
   Clause("C10", "ReplayableHeight", ev'.kind \in {"Recover", "Unrecoverable"} /\ NoPanic,
          ev'.kind = "Recover" /\ ev'.resp.gas \in {ev'.h, ev'.h + 1},      \* the crashed block is h+1 at the time of the restart
          [at |-> Where, reported |-> ev'.resp.gas, fault |-> hist.lastFault])
C10_Recovered ==
   Clause("C10", "RecoveredEqualsUncrashed", HasObs /\ hist.crashed, ObsDiff = {}, ObsDescr)
C10_Step == C10_Height /\ C10_Recovered

LedgerProps == C01_Step /\ C02_Step /\ C03_Step /\ C04_Step /\ C05_Step /\ C06_Step /\ C07_Step /\ C26_Step /\ C27_Step
=============================================================================
