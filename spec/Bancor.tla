------------------------------- MODULE Bancor -------------------------------
(***************************************************************************)
(* The contract of the four bancor functions (formula/formula.go) in exact  *)
(* integer arithmetic (C12).  For supply S, reserve R, reserve ratio c (in  *)
(* percent), p = 100/gcd(c,100), q = c/gcd(c,100):                          *)
(*   purchase return  y for deposit x:     (S+y)^p * R^q  =  S^p * (R+x)^q   *)
(*   purchase amount  y for x coins:       (R+y)^q * S^p  =  R^q * (S+x)^p   *)
(*   sale return      y for x coins sold:  (R-y)^q * S^p  =  R^q * (S-x)^p   *)
(*   sale amount      y for x base wanted: (S-y)^p * R^q  =  S^p * (R-x)^q   *)
(* "up to truncation": the equation lies between the values for y and y+1;  *)
(* "bounded relative floating-point error": each side may be off by the     *)
(* factor (1 + Eps), Eps = 1 / EpsInv.                                      *)
(***************************************************************************)
EXTENDS Amount, Integers

RECURSIVE Gcd(_, _)
Gcd(a, b) == IF b = 0 THEN a ELSE Gcd(b, a % b)
P(c) == 100 \div Gcd(c, 100)
Q(c) == c \div Gcd(c, 100)

\* Tolerance.  The functions compute in 100-bit floating point (about 30 decimal digits) with a float64 exponent: the result y
\* is within  1 (truncation) + y * 10^-12 (relative error of the power) + Scale * 10^-26 (cancellation against 1; Scale = the
\* quantity the result is a fraction of: supply for coin amounts, reserve for base-coin amounts) of the exact value.
\* Measured on the unchanged tree over the quick corpus: relative part < 2 * 10^-14, scale part < 10^-29.
RelInv == "1000000000000"
ScaleInv == "100000000000000000000000000"
Tol(y, scale) == (One ++ (y // RelInv)) ++ (scale // ScaleInv)
Lo(y, scale) == IF y \preceq Tol(y, scale) THEN Zero ELSE y -- Tol(y, scale)
Hi(y, scale) == (y ++ One) ++ Tol(y, scale)
MinReserve == "10000000000000000000000"        \* 10 000 BIP: the node never lets a reserve fall below it (except by selling the whole supply)

\* increasing relations: f(y) = rhs has its exact solution between Lo and Hi
PurchaseReturnOk(S, R, c, x, y) ==
   LET f(v) == APow(S ++ v, P(c)) ** APow(R, Q(c))
       rhs == APow(S, P(c)) ** APow(R ++ x, Q(c))
   IN f(Lo(y, S)) \preceq rhs /\ rhs \preceq f(Hi(y, S))
PurchaseAmountOk(S, R, c, x, y) ==
   LET f(v) == APow(R ++ v, Q(c)) ** APow(S, P(c))
       rhs == APow(R, Q(c)) ** APow(S ++ x, P(c))
   IN f(Lo(y, R)) \preceq rhs /\ rhs \preceq f(Hi(y, R))
\* decreasing relations (what is left after taking y out)
SaleReturnOk(S, R, c, x, y) ==
   LET f(v) == IF R \preceq v THEN Zero ELSE APow(R -- v, Q(c)) ** APow(S, P(c))
       rhs == APow(R, Q(c)) ** APow(S -- x, P(c))
   IN y \preceq R /\ rhs \preceq f(Lo(y, R)) /\ f(Hi(y, R)) \preceq rhs
SaleAmountOk(S, R, c, x, y) ==
   LET f(v) == IF S \preceq v THEN Zero ELSE APow(S -- v, P(c)) ** APow(R, Q(c))
       rhs == APow(S, P(c)) ** APow(R -- x, Q(c))
   IN y \preceq S /\ rhs \preceq f(Lo(y, S)) /\ f(Hi(y, S)) \preceq rhs
=============================================================================
