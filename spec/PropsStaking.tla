------------------------------- MODULE PropsStaking -------------------------------
(***************************************************************************)
(* Properties of the staking / validator / governance / reward families:  *)
(* C16 (exits from staking only on schedule), C17 (validator set and       *)
(* powers), C18 (punishment), C19 (reward accrual and payout), C20         *)
(* (governance threshold), and the candidate/stake part of C05.            *)
(* All clauses are action formulas over (st, st') and the step ev'.        *)
(***************************************************************************)
EXTENDS Props

Cfg == hist.cfg
H == ev'.h
\* multiset difference of two sequences: what appears more often in t than in s
MoreIn(t, s) == {x \in Range(t) : CountIn(t, x) > CountIn(s, x)}
NewFrozenItems == MoreIn(st'.frozen, st.frozen)
GoneFrozenItems == MoreIn(st.frozen, st'.frozen)
FrozenAdded == SelectSeq(st'.frozen, LAMBDA f : f \in NewFrozenItems)
CandId(s, p) == IF p \in DOMAIN s.cands THEN s.cands[p].id ELSE 0
Ok(type) == Delivered /\ Code = 0 /\ Tx.type = type

\* ======================================================================== C16
C16_Unbond ==
   Clause("C16", "UnbondFreezesForUnbondPeriod", Ok("Unbond"),
          /\ GoneFrozenItems = {}
          /\ Cardinality(NewFrozenItems) = 1
          /\ \A f \in NewFrozenItems : /\ f.due = H + Cfg.unbond /\ f.o = Tx.sender /\ f.key = Arg("pub")
                                       /\ f.c = Arg("coin") /\ f.v = Arg("value") /\ f.to = 0,
          [at |-> WhereTx, new |-> NewFrozenItems, gone |-> GoneFrozenItems, want |-> H + Cfg.unbond])
C16_Lock ==
   Clause("C16", "LockFreezesUntilDueBlock", Ok("Lock"),
          /\ GoneFrozenItems = {}
          /\ Cardinality(NewFrozenItems) = 1
          /\ \A f \in NewFrozenItems : f.due = Arg("due") /\ f.due > H /\ f.o = Tx.sender /\ f.key = "" /\ f.c = Arg("coin") /\ f.v = Arg("value") /\ f.to = 0,
          [at |-> WhereTx, new |-> NewFrozenItems, due |-> Arg("due")])
C16_Move ==
   Clause("C16", "MoveOnlyToExistingCandidate", Ok("MoveStake"),
          /\ Arg("to") \in DOMAIN st.cands
          /\ GoneFrozenItems = {}
          /\ Cardinality(NewFrozenItems) = 1
          /\ \A f \in NewFrozenItems : /\ f.due = H + Cfg.move /\ f.o = Tx.sender /\ f.key = Arg("from") /\ f.c = Arg("coin") /\ f.v = Arg("value")
                                       /\ f.to # 0 /\ f.to = CandId(st, Arg("to")),
          [at |-> WhereTx, new |-> NewFrozenItems, targetExists |-> Arg("to") \in DOMAIN st.cands, target |-> Arg("to")])
C16_LockStake ==
   Clause("C16", "LockedStakeCannotBeUnbonded", Delivered /\ Code = 0 /\ Tx.type \in {"Unbond"} /\ Tx.intact,
          LockOf(st, Tx.sender) <= H,
          [at |-> WhereTx, lockedUntil |-> LockOf(st, Tx.sender)])
C16_OtherTx ==
   Clause("C16", "OnlyExitTransactionsFreeze", Delivered /\ ~(Code = 0 /\ Tx.type \in {"Unbond", "Lock", "MoveStake"}),
          BagOf(st'.frozen) = BagOf(st.frozen),
          [at |-> WhereTx, new |-> NewFrozenItems, gone |-> GoneFrozenItems])
\* maturity: at BeginBlock(h) exactly the items due at h leave; plain ones are credited to the owner's balance,
\* moving ones become a pending delegation to the target candidate and never touch the balance
DueNow == SelectSeq(st.frozen, LAMBDA f : f.due = H)
CreditFor(a, c) == SumOver(SelectSeq(DueNow, LAMBDA f : f.o = a /\ f.c = c /\ f.to = 0), LAMBDA f : f.v)
NoEvidence == ev'.begin.evidence = <<>>
C16_Mature ==
   Clause("C16", "MaturityAtDueBlockOnly", IsKind("BeginBlock") /\ NoPanic /\ NoEvidence,
          /\ BagOf(st'.frozen) = BagOf(SelectSeq(st.frozen, LAMBDA f : f.due # H))
          /\ \A a \in AllAccounts(st, st'), c \in AllCoins(st, st') : Bal(st', a, c) = Bal(st, a, c) ++ CreditFor(a, c),
          [at |-> Where, due |-> DueNow, gone |-> GoneFrozenItems, new |-> NewFrozenItems,
           wrongBalances |-> {ac \in AllAccounts(st, st') \X AllCoins(st, st') : Bal(st', ac[1], ac[2]) # Bal(st, ac[1], ac[2]) ++ CreditFor(ac[1], ac[2])}])
MovedNow == SelectSeq(DueNow, LAMBDA f : f.to # 0)
CandById(s, id) == {p \in DOMAIN s.cands : s.cands[p].id = id}
C16_MoveArrives ==
   Clause("C16", "MoveCreditsTargetCandidate", IsKind("BeginBlock") /\ NoPanic /\ NoEvidence /\ MovedNow # <<>>,
          \A i \in DOMAIN MovedNow :
             LET f == MovedNow[i] IN
             \E p \in CandById(st', f.to) :
                \E u \in Range(st'.cands[p].upd) : u.o = f.o /\ u.c = f.c /\ f.v \preceq u.v,
          [at |-> Where, moved |-> MovedNow])
C16_NoEarly ==
   Clause("C16", "NothingLeavesEarly", NoPanic /\ ev'.kind \in {"DeliverTx", "EndBlock", "Commit", "CheckTx"} /\ "st" \in DOMAIN ev',
          GoneFrozenItems = {},
          [at |-> Where, gone |-> GoneFrozenItems])
\* a moving fund stays a moving fund with the same target, owner, coin and due block until it matures (only its value may be cut by a punishment)
C16_TargetKept ==
   Clause("C16", "MovingFundsKeepTheirTarget", NoPanic /\ "st" \in DOMAIN ev' /\ ev'.kind \in {"BeginBlock", "DeliverTx", "EndBlock", "Commit"}
                 /\ (\E f \in Range(st.frozen) : f.to # 0),
          \A f \in Range(st.frozen) :
             (f.to # 0 /\ ~(IsKind("BeginBlock") /\ f.due = H)) =>
                \E g \in Range(st'.frozen) : g.due = f.due /\ g.o = f.o /\ g.c = f.c /\ g.to = f.to /\ g.id = f.id,
          [at |-> Where, moving |-> SelectSeq(st.frozen, LAMBDA f : f.to # 0), after |-> SelectSeq(st'.frozen, LAMBDA f : f.o \in {x.o : x \in Range(SelectSeq(st.frozen, LAMBDA y : y.to # 0))})])
C16_Step == C16_Unbond /\ C16_Lock /\ C16_Move /\ C16_LockStake /\ C16_OtherTx /\ C16_Mature /\ C16_MoveArrives /\ C16_NoEarly /\ C16_TargetKept

\* ======================================================================== C18
ValSeq(s) == s.vals
ValNames(s) == {s.vals[i].p : i \in DOMAIN s.vals}
ValOf(s, p) == CHOOSE v \in Range(s.vals) : v.p = p
IsAbsent(p) == p \in Range(ev'.begin.absent)
\* grace: 120 blocks from the initial height and from every network update (a model may state a shorter one in its configuration record)
GraceBlocks == IF "grace" \in DOMAIN Cfg THEN Cfg.grace ELSE 120
Grace(h) == \/ (h >= Cfg.initial - 1 /\ h <= Cfg.initial - 1 + GraceBlocks)
            \/ \E i \in DOMAIN st.versions : h >= st.versions[i].h /\ h <= st.versions[i].h + GraceBlocks
Evidenced(p) == p \in Range(ev'.begin.evidence)
\* validators of st that stay validators in st' (nothing about them is recomputed in BeginBlock except marks)
\* the absence window: 24 blocks in the node; a model may state a smaller one in its configuration record
Window == IF "window" \in DOMAIN Cfg THEN Cfg.window ELSE 24
NewBits(p) == [ValOf(st, p).bits EXCEPT ![(H % Window) + 1] = (IF IsAbsent(p) THEN 1 ELSE 0)]
NewCount(p) == Cardinality({j \in 1..Window : NewBits(p)[j] = 1})
\* more than half of the window missed (more than 12 of the last 24 blocks), counting this one
TooAbsent(p) == IsAbsent(p) /\ Len(ValOf(st, p).bits) = Window /\ NewCount(p) > Window \div 2
C18_Marks ==
   Clause("C18", "AbsenceWindow", IsKind("BeginBlock") /\ NoPanic,
          \A p \in ValNames(st) \cap ValNames(st') :
             LET b2 == ValOf(st', p).bits IN
             /\ Len(b2) = Window
             /\ IF TooAbsent(p) THEN (\A j \in 1..Window : b2[j] = 0) /\ ValOf(st', p).toDrop      \* switched off: window cleared, dropped at the next update
                ELSE b2 = NewBits(p)
             /\ ValOf(st', p).absent = Cardinality({j \in 1..Window : b2[j] = 1}),
          [at |-> Where, absent |-> ev'.begin.absent, before |-> [p \in ValNames(st) |-> ValOf(st, p).bits], after |-> [p \in ValNames(st') |-> ValOf(st', p).bits]])
C18_Absent ==
   Clause("C18", "TooManyAbsencesSwitchOffAndJail", IsKind("BeginBlock") /\ NoPanic /\ (\E p \in ValNames(st) : TooAbsent(p)),
          \A p \in ValNames(st) : (TooAbsent(p) /\ p \in DOMAIN st'.cands /\ p \in DOMAIN st.cands) =>
             /\ st'.cands[p].status = 1
             /\ (~Grace(H) => st'.cands[p].jailedUntil = H + Cfg.jail)
             /\ (Grace(H) => st'.cands[p].jailedUntil = st.cands[p].jailedUntil),
          [at |-> Where, grace |-> Grace(H), who |-> {p \in ValNames(st) : TooAbsent(p)},
           status |-> [p \in DOMAIN st'.cands |-> <<st'.cands[p].status, st'.cands[p].jailedUntil>>]])
C18_OnlyThen ==
   Clause("C18", "SwitchOffOnlyForAbsenceOrEvidence", IsKind("BeginBlock") /\ NoPanic,
          \A p \in DOMAIN st.cands \cap DOMAIN st'.cands :
             (st'.cands[p].status # st.cands[p].status \/ st'.cands[p].jailedUntil # st.cands[p].jailedUntil) =>
                (p \in ValNames(st) /\ (TooAbsent(p) \/ Evidenced(p))),
          [at |-> Where, changed |-> {p \in DOMAIN st.cands \cap DOMAIN st'.cands : st'.cands[p].status # st.cands[p].status \/ st'.cands[p].jailedUntil # st.cands[p].jailedUntil}])
C18_Jail ==
   Clause("C18", "JailedCannotSwitchOn", Ok("SetCandidateOn") /\ Arg("pub") \in DOMAIN st.cands,
          st.cands[Arg("pub")].jailedUntil < H,
          [at |-> WhereTx, jailedUntil |-> st.cands[Arg("pub")].jailedUntil])
\* byzantine evidence: 5% (rounded up) of every stake and of every unbonding fund of the candidate is slashed, the rest of each stake is unbonded
Punishable(p) == p \in DOMAIN st.cands /\ st.cands[p].status = 2 /\ p \in ValNames(st)
SlashOf(v) == v -- ((v ** Nat2A(95)) // Nat2A(100))
KeepOf(v) == (v ** Nat2A(95)) // Nat2A(100)
\* the node marks absences before it looks at the evidence: a validator switched off for absence in this very block is "already offline"
\* when its evidence is handled and is not slashed (DESIGN.md 13.8 records this as an observation, not as a finding)
EvSet == {p \in Range(ev'.begin.evidence) : Punishable(p) /\ ~TooAbsent(p)}
C18_ByzStakes ==
   Clause("C18", "ByzantineStakesSlashedAndUnbonded", IsKind("BeginBlock") /\ NoPanic /\ EvSet # {},
          \A p \in EvSet :
             /\ p \in DOMAIN st'.cands
             /\ \A s \in Range(st'.cands[p].stakes) : s.v = Zero
             /\ \A i \in DOMAIN st.cands[p].stakes :
                   LET s == st.cands[p].stakes[i] IN
                   s.v = Zero \/ \E f \in Range(st'.frozen) : f.o = s.o /\ f.c = s.c /\ f.key = p /\ f.due = H + Cfg.unbond /\ f.v = KeepOf(s.v) /\ f.to = 0
             /\ ValOf(st', p).toDrop,
          [at |-> Where, evidence |-> EvSet, stakesBefore |-> [p \in EvSet |-> st.cands[p].stakes], frozenNew |-> NewFrozenItems])
\* unbonding funds of the punished candidate (due within the unbond period) lose exactly the rounded-up 5% -- once, however many pieces of evidence name it
FrozenOf(s, p) == SelectSeq(s.frozen, LAMBDA f : f.key = p /\ f.due >= H)
C18_ByzFrozenOnce ==
   Clause("C18", "UnbondingFundsSlashedOnce", IsKind("BeginBlock") /\ NoPanic /\ EvSet # {},
          \A p \in EvSet :
             \A i \in DOMAIN st.frozen :
                LET f == st.frozen[i] IN
                (f.key = p /\ f.due > H /\ f.due <= H + Cfg.unbond) =>
                   \E g \in Range(st'.frozen) : g.due = f.due /\ g.o = f.o /\ g.c = f.c /\ g.key = p /\ g.to = f.to /\ g.v = KeepOf(f.v),
          [at |-> Where, evidence |-> ev'.begin.evidence, before |-> [p \in EvSet |-> FrozenOf(st, p)], after |-> [p \in EvSet |-> FrozenOf(st', p)]])
\* a fund of the punished candidate that falls due in the evidence block itself is cut before it is released: its owner (or the target of a
\* move) receives the remaining 95%
DueNowAll == SelectSeq(st.frozen, LAMBDA f : f.due = H)
CutCredit(a, c) == SumOver(SelectSeq(DueNowAll, LAMBDA f : f.o = a /\ f.c = c /\ f.to = 0), LAMBDA f : IF f.key \in EvSet THEN KeepOf(f.v) ELSE f.v)
C18_ByzDueNow ==
   Clause("C18", "FundsDueInTheEvidenceBlockAreCutToo", IsKind("BeginBlock") /\ NoPanic /\ EvSet # {} /\ (\E f \in Range(DueNowAll) : f.key \in EvSet),
          /\ \A a \in AllAccounts(st, st'), c \in AllCoins(st, st') : Bal(st', a, c) = Bal(st, a, c) ++ CutCredit(a, c)
          /\ \A f \in Range(DueNowAll) : (f.key \in EvSet /\ f.to # 0) =>
                \E p \in CandById(st', f.to) : \E u \in Range(st'.cands[p].upd) : u.o = f.o /\ u.c = f.c /\ u.v = KeepOf(f.v),
          [at |-> Where, evidence |-> EvSet, dueNow |-> DueNowAll,
           wrongBalances |-> {ac \in AllAccounts(st, st') \X AllCoins(st, st') : Bal(st', ac[1], ac[2]) # Bal(st, ac[1], ac[2]) ++ CutCredit(ac[1], ac[2])}])
C18_ByzSlashedPool ==
   Clause("C18", "SlashedValueGoesToTotalSlashed", IsKind("BeginBlock") /\ NoPanic /\ EvSet # {}
                 /\ (\A p \in EvSet : \A s \in Range(st.cands[p].stakes) : s.c = Base) /\ (\A f \in Range(st.frozen) : f.c = Base),
          st'.slashed -- st.slashed =
             SumOver(SetToSeq(EvSet), LAMBDA p : SumOver(st.cands[p].stakes, LAMBDA s : SlashOf(s.v))
                                                  ++ SumOver(SelectSeq(st.frozen, LAMBDA f : f.key = p /\ f.due >= H /\ f.due <= H + Cfg.unbond), LAMBDA f : SlashOf(f.v))),   \* a fund due in this very block is still unbonding when the evidence is handled
          [at |-> Where, evidence |-> EvSet, slashedBefore |-> st.slashed, slashedAfter |-> st'.slashed])
C18_NoDoublePunish ==
   Clause("C18", "EvidenceAgainstOthersChangesNothing", IsKind("BeginBlock") /\ NoPanic /\ ~NoEvidence /\ EvSet = {},
          /\ st'.slashed = st.slashed
          /\ \A p \in DOMAIN st.cands \cap DOMAIN st'.cands : BagOf(st'.cands[p].stakes) = BagOf(st.cands[p].stakes)
          /\ BagOf(st'.frozen) = BagOf(SelectSeq(st.frozen, LAMBDA f : f.due # H)),
          [at |-> Where, evidence |-> ev'.begin.evidence])
C18_Step == C18_Marks /\ C18_Absent /\ C18_OnlyThen /\ C18_Jail /\ C18_ByzStakes /\ C18_ByzFrozenOnce /\ C18_ByzDueNow /\ C18_ByzSlashedPool /\ C18_NoDoublePunish

\* ======================================================================== C20
Present(p) == p \in Range(ev'.begin.present)
\* voting power as the node uses it in this block: stake of validators recorded present and not dropped
PowerSeq(s, presentSet) == SelectSeq(s.vals, LAMBDA v : v.p \in presentSet /\ ~v.toDrop)
TotalPowerOf(s, presentSet) == LET t == SumOver(PowerSeq(s, presentSet), LAMBDA v : v.stake) IN IF t = Zero THEN One ELSE t
VotedPower(s, presentSet, votes) == SumOver(SelectSeq(PowerSeq(s, presentSet), LAMBDA v : v.p \in Range(votes)), LAMBDA v : v.stake)
\* strictly more than two thirds
Passes(s, presentSet, votes) == (Nat2A(2) ** TotalPowerOf(s, presentSet)) \prec (Nat2A(3) ** VotedPower(s, presentSet, votes))
VotesAt(votes, h) == SelectSeq(votes, LAMBDA v : v.h = h)
\* the set of validators present in the block is fixed by BeginBlock; the trace spec remembers it in hist.present
C20_Update ==
   Clause("C20", "NetworkUpdateNeedsMoreThanTwoThirds", IsKind("EndBlock") /\ NoPanic /\ VotesAt(st.updVotes, H) # <<>>,
          LET winners == {v \in Range(VotesAt(st.updVotes, H)) : Passes(st, hist.present, v.votes)}
              applied == Len(st'.versions) > Len(st.versions)
          IN /\ applied <=> winners # {}
             /\ applied => /\ st'.versions[Len(st'.versions)].h = H
                           /\ \E w \in winners : /\ w.what = st'.versions[Len(st'.versions)].name
                                                 /\ \A x \in Range(VotesAt(st.updVotes, H)) : VotedPower(st, hist.present, x.votes) \preceq VotedPower(st, hist.present, w.votes),
          [at |-> Where, votes |-> VotesAt(st.updVotes, H), present |-> hist.present, total |-> TotalPowerOf(st, hist.present),
           voted |-> [i \in DOMAIN VotesAt(st.updVotes, H) |-> VotedPower(st, hist.present, VotesAt(st.updVotes, H)[i].votes)],
           versionsAfter |-> st'.versions])
C20_Commission ==
   Clause("C20", "CommissionChangeNeedsMoreThanTwoThirds", IsKind("EndBlock") /\ NoPanic /\ VotesAt(st.commVotes, H) # <<>>,
          LET winners == {v \in Range(VotesAt(st.commVotes, H)) : Passes(st, hist.present, v.votes)}
              applied == st'.price # st.price \/ st'.priceCoin # st.priceCoin
          IN /\ applied => winners # {}
             /\ (winners # {} /\ \A w \in winners : w.what # (st.price.Send \o "/" \o st.priceCoin)) => applied
             /\ applied => \E w \in winners : /\ w.what = (st'.price.Send \o "/" \o st'.priceCoin)
                                              /\ \A x \in Range(VotesAt(st.commVotes, H)) : VotedPower(st, hist.present, x.votes) \preceq VotedPower(st, hist.present, w.votes),
          [at |-> Where, votes |-> VotesAt(st.commVotes, H), present |-> hist.present, total |-> TotalPowerOf(st, hist.present),
           voted |-> [i \in DOMAIN VotesAt(st.commVotes, H) |-> VotedPower(st, hist.present, VotesAt(st.commVotes, H)[i].votes)]])
C20_NoSpontaneous ==
   Clause("C20", "NoChangeWithoutVotes", IsKind("EndBlock") /\ NoPanic,
          /\ VotesAt(st.updVotes, H) = <<>> => st'.versions = st.versions
          /\ VotesAt(st.commVotes, H) = <<>> => (st'.price = st.price /\ st'.priceCoin = st.priceCoin),
          [at |-> Where])
\* halts are decided in BeginBlock on the votes for that height; the harness logs the decision as a step of kind "Halt"
C20_Halt ==
   Clause("C20", "HaltNeedsMoreThanTwoThirds", ev'.kind \in {"BeginBlock", "Halt"} /\ NoPanic /\ VotesAt(st.haltVotes, H) # <<>>,
          IsKind("Halt") <=> (\E v \in Range(VotesAt(st.haltVotes, H)) : Passes(st, Range(ev'.begin.present), v.votes)),
          [at |-> Where, votes |-> VotesAt(st.haltVotes, H), present |-> ev'.begin.present, total |-> TotalPowerOf(st, Range(ev'.begin.present)),
           voted |-> [i \in DOMAIN VotesAt(st.haltVotes, H) |-> VotedPower(st, Range(ev'.begin.present), VotesAt(st.haltVotes, H)[i].votes)]])
C20_NoHaltWithoutVotes ==
   Clause("C20", "NoHaltWithoutVotes", IsKind("Halt") /\ ev'.resp.log = "", VotesAt(st.haltVotes, H) # <<>>, [at |-> Where])
VoteTypes == {"SetHaltBlock", "VoteUpdate", "VoteCommission"}
VotesOfType(s, t) == CASE t = "SetHaltBlock" -> s.haltVotes [] t = "VoteUpdate" -> s.updVotes [] t = "VoteCommission" -> s.commVotes
C20_Reject ==
   Clause("C20", "PastAndDuplicateVotesRejected", Delivered /\ Tx.type \in VoteTypes /\ Tx.intact /\ HasArg("height"),
          LET dup == \E v \in Range(VotesOfType(st, Tx.type)) : v.h = Arg("height") /\ Arg("pub") \in Range(v.votes)
          IN (Arg("height") < H \/ dup) => Code # 0,
          [at |-> WhereTx, height |-> Arg("height"), votes |-> VotesOfType(st, Tx.type)])
C20_Step == C20_Update /\ C20_Commission /\ C20_NoSpontaneous /\ C20_Halt /\ C20_NoHaltWithoutVotes /\ C20_Reject

\* ======================================================================== C19 (accrual)
\* at EndBlock every validator recorded present (and not being dropped) accrues floor((reward + fees) * stake / total power);
\* dropped validators' accumulated rewards go back to the pool first; the remainder goes to total slashed
DroppedAccum == SumOver(SelectSeq(st.vals, LAMBDA v : v.toDrop), LAMBDA v : v.accum)
BlockReward == IF st.emission \prec hist.cap THEN st.reward ELSE Zero
ToShare == (BlockReward ++ st.rewardPool) ++ DroppedAccum
ShareOf(v) == (ToShare ** v.stake) // TotalPowerOf(st, hist.present)
IsPayout == H % Cfg.stakePeriod = 0
C19_Accrue ==
   Clause("C19", "AccrualProportionalToStakeOfPresent", IsKind("EndBlock") /\ NoPanic /\ ~IsPayout /\ ValNames(st') = ValNames(st),
          \A v \in Range(st.vals) :
             ValOf(st', v.p).accum = IF v.toDrop THEN Zero
                                     ELSE IF v.p \in hist.present THEN v.accum ++ ShareOf(v) ELSE v.accum,
          [at |-> Where, present |-> hist.present, toShare |-> ToShare, total |-> TotalPowerOf(st, hist.present),
           before |-> [i \in DOMAIN st.vals |-> <<st.vals[i].p, st.vals[i].accum, st.vals[i].stake>>],
           after |-> [i \in DOMAIN st'.vals |-> <<st'.vals[i].p, st'.vals[i].accum>>]])
C19_Step == C19_Accrue

\* ======================================================================== C17 (validator set and powers after an update)
MinValidatorStake == Nat2A(1000) ** hist.unit
Eligible(s) == {p \in DOMAIN s.cands : s.cands[p].status = 2 /\ MinValidatorStake \preceq s.cands[p].total}
Updated == IsKind("EndBlock") /\ NoPanic /\ (IsPayout \/ ev'.end.updates # <<>>)
C17_Set ==
   Clause("C17", "ValidatorsAreTopEligibleCandidates", Updated /\ IsPayout,
          LET vs == ValNames(st') IN
          /\ vs \subseteq Eligible(st')
          /\ Cardinality(vs) = (IF Cardinality(Eligible(st')) < 64 THEN Cardinality(Eligible(st')) ELSE 64)
          /\ \A x \in vs, y \in Eligible(st') \ vs : st'.cands[y].total \preceq st'.cands[x].total
          /\ \A x \in vs : ValOf(st', x).stake = st'.cands[x].total,
          [at |-> Where, vals |-> ValNames(st'), eligible |-> [p \in Eligible(st') |-> st'.cands[p].total]])
\* the stake figure that ranks a candidate is its real stake: after an update every base-coin stake is valued at what it holds now
\* (an unbond or a move since the last update included) and a candidate's total is the sum of its stakes' values
BaseOnly(cd) == \A x \in Range(cd.stakes) : x.c = Base
C17_Totals ==
   Clause("C17", "TotalStakeIsTheRealStake", Updated,
          \A p \in DOMAIN st'.cands :
             /\ \A x \in Range(st'.cands[p].stakes) : x.c = Base => x.bv = x.v
             /\ st'.cands[p].total = SumOver(st'.cands[p].stakes, LAMBDA x : x.bv),
          [at |-> Where, wrong |-> [p \in {q \in DOMAIN st'.cands : st'.cands[q].total # SumOver(st'.cands[q].stakes, LAMBDA x : x.bv)
                                                              \/ \E x \in Range(st'.cands[q].stakes) : x.c = Base /\ x.bv # x.v}
                                    |-> <<st'.cands[p].total, st'.cands[p].stakes>>]])
SumTotals == SumOver(SetToSeq(ValNames(st')), LAMBDA p : st'.cands[p].total)
PowerOf(p) == LET q == (st'.cands[p].total ** Nat2A(100000000)) // SumTotals IN IF q = Zero THEN One ELSE q
C17_Power ==
   Clause("C17", "PowersProportionalRoundedDown", Updated /\ IsPayout /\ ValNames(st') # {},
          /\ \A p \in ValNames(st') : \E u \in Range(ev'.end.updates) : u.p = p /\ Nat2A(u.power) = PowerOf(p)
          /\ \A u \in Range(ev'.end.updates) : u.p \in ValNames(st') \/ u.power = 0,      \* a key that is no validator any more (dropped, or retired by a key change) is removed
          [at |-> Where, updates |-> ev'.end.updates, want |-> [p \in ValNames(st') |-> PowerOf(p)]])

\* ======================================================================== C05 (candidate settings, stakes)
CandFieldsChanged(p) == {f \in {"owner", "control", "reward", "comm", "status"} : st'.cands[p][f] # st.cands[p][f]}
C05_Cand ==
   Clause("C05", "CandidateSettingsOnlyByOwner", Delivered /\ Tx.intact,
          \A p \in DOMAIN st.cands \cap DOMAIN st'.cands :
             LET ch == CandFieldsChanged(p) IN
             /\ (ch \ {"status"}) # {} => Tx.sender = st.cands[p].owner
             /\ "status" \in ch => Tx.sender \in {st.cands[p].owner, st.cands[p].control},
          [at |-> WhereTx, changed |-> [p \in DOMAIN st.cands \cap DOMAIN st'.cands |-> CandFieldsChanged(p)], sender |-> Tx.sender])
\* a delegator's stake + pending update + waitlist value at a candidate shrinks in a delivery only by its own transaction
\* (a candidate is identified by its id: its public key may change)
PubOfId(s, id) == {p \in DOMAIN s.cands : s.cands[p].id = id}
StakeHeld(s, id, o, c) == SumOver(SetToSeq(PubOfId(s, id)),
                             LAMBDA p : SumOver(SelectSeq(s.cands[p].stakes, LAMBDA x : x.o = o /\ x.c = c), LAMBDA x : x.v)
                                        ++ SumOver(SelectSeq(s.cands[p].upd, LAMBDA x : x.o = o /\ x.c = c), LAMBDA x : x.v))
Stakers(s) == UNION {{<<s.cands[p].id, x.o, x.c>> : x \in Range(s.cands[p].stakes) \cup Range(s.cands[p].upd)} : p \in DOMAIN s.cands}
C05_Stake ==
   Clause("C05", "StakesWithdrawnOnlyByOwner", Delivered,
          \A t \in Stakers(st) : StakeHeld(st', t[1], t[2], t[3]) \prec StakeHeld(st, t[1], t[2], t[3]) => t[2] \in Authorized,
          [at |-> WhereTx, losers |-> {t \in Stakers(st) : StakeHeld(st', t[1], t[2], t[3]) \prec StakeHeld(st, t[1], t[2], t[3])}, authorized |-> Authorized])
C05_StakingStep == C05_Cand /\ C05_Stake

\* delegation slots: when all 1000 slots of a candidate are taken after a recalculation, nothing that was sent to the wait list
\* in this step is worth more (in base coin) than a stake that holds a slot, and it waits with its full value
MaxSlots == 1000
WaitKey(w) == <<w.o, w.id, w.c>>
WaitVal(s, k) == SumOver(SelectSeq(s.wait, LAMBDA w : WaitKey(w) = k), LAMBDA w : w.v)
GrownWait == {WaitKey(st'.wait[i]) : i \in {j \in DOMAIN st'.wait : WaitVal(st, WaitKey(st'.wait[j])) \prec WaitVal(st', WaitKey(st'.wait[j]))}}
\* base-coin value of an amount of coin c (exact for the base coin and for reserve ratio 100)
Valuable(c) == c = Base \/ (c \in DOMAIN st'.coins /\ st'.coins[c].kind = "bancor" /\ st'.coins[c].crr = 100)
BipVal(c, v) == IF c = Base THEN v ELSE (v ** st'.coins[c].res) // st'.coins[c].vol
FullCands == {p \in DOMAIN st'.cands : Len(st'.cands[p].stakes) = MaxSlots}
C17_Slots ==
   Clause("C17", "FullSlotsKeepTheMostValuableStakes", IsKind("EndBlock") /\ NoPanic /\ FullCands # {} /\ GrownWait # {},
          \A p \in FullCands : \A k \in GrownWait :
             (k[2] = st'.cands[p].id /\ Valuable(k[3])) =>
                LET sent == WaitVal(st', k) -- WaitVal(st, k) IN
                /\ \A x \in Range(st'.cands[p].stakes) : (BipVal(k[3], sent) ** Nat2A(1000)) \preceq (x.bv ** Nat2A(1001))
                \* full value: what started waiting is a whole stake or update of that owner and coin, not a part of it
                /\ StakeHeld(st', k[2], k[1], k[3]) = Zero,
          [at |-> Where, waiting |-> [k \in GrownWait |-> <<WaitVal(st, k), WaitVal(st', k)>>],
           smallest |-> [p \in FullCands |-> LET vs == {x.bv : x \in Range(st'.cands[p].stakes)} IN CHOOSE m \in vs : \A y \in vs : m \preceq y]])
\* ======================================================================== C19 (payout)
\* At a payout height the accumulated reward A of every validator (including this block's accrual) is split in exact integers:
\*   DAO = floor(A/10), developers = floor(A/10), validator = floor((A - DAO - dev) * commission / 100) to the reward address,
\*   each stake i: floor(rest * bv_i / stake_v) to its owner (bv_i = base-coin value of the stake, stake_v = the validator's
\*   recorded total), the remainder to total slashed; the accumulator is emptied.  Rewards are delegated, not paid to the
\*   balance: what an owner holds at the candidate in base coin (stake + pending update + wait list) grows by its rewards.
\* Owners whose stakes are locked (LockStake) earn more than the proportional share; for validators with such delegators only
\* "at least the proportional share" is required here (the x3 branch is bounded by C01's emission clause).
Tenth(a) == a // Nat2A(10)
AccumAtPayout(v) == IF v.toDrop THEN Zero ELSE IF v.p \in hist.present THEN v.accum ++ ShareOf(v) ELSE v.accum
ValCut(p, a) == (((a -- Tenth(a)) -- Tenth(a)) ** Nat2A(st.cands[p].comm)) // Nat2A(100)
RestFor(p, a) == ((a -- Tenth(a)) -- Tenth(a)) -- ValCut(p, a)
DelegatorReward(v, x) == IF x.bv = Zero \/ v.stake = Zero THEN Zero ELSE (RestFor(v.p, AccumAtPayout(v)) ** x.bv) // v.stake
StakeRewards(v, o) == SumOver(SelectSeq(st.cands[v.p].stakes, LAMBDA x : x.o = o), LAMBDA x : DelegatorReward(v, x))
ExpectedReward(v, o) == StakeRewards(v, o)
                        ++ (IF o = st.cands[v.p].reward THEN ValCut(v.p, AccumAtPayout(v)) ELSE Zero)
                        ++ (IF o = "dao" THEN Tenth(AccumAtPayout(v)) ELSE Zero)
                        ++ (IF o = "dev" THEN Tenth(AccumAtPayout(v)) ELSE Zero)
HeldAll(s, id, o, c) == StakeHeld(s, id, o, c) ++ WaitVal(s, <<o, id, c>>)
PaidVals == {i \in DOMAIN st.vals : st.vals[i].p \in DOMAIN st.cands /\ st.vals[i].p \in DOMAIN st'.cands
                                     /\ ~(st.vals[i].toDrop /\ st.vals[i].stake = Zero)}
OwnersAt(p) == {x.o : x \in Range(st.cands[p].stakes)} \cup {st.cands[p].reward, "dao", "dev"}
HasLocked(p) == \E o \in OwnersAt(p) : LockOf(st, o) > H
NoFrozenBorn == BagOf(st'.frozen) = BagOf(st.frozen)
C19_Payout ==
   Clause("C19", "PayoutSplitExactAndProportional", IsKind("EndBlock") /\ NoPanic /\ IsPayout /\ PaidVals # {} /\ NoFrozenBorn,
          \A i \in PaidVals : LET v == st.vals[i]  id == st.cands[v.p].id IN
             \A o \in OwnersAt(v.p) :
                LET gain == HeldAll(st', id, o, Base) -- HeldAll(st, id, o, Base) IN
                IF HasLocked(v.p) THEN ExpectedReward(v, o) \preceq gain ELSE gain = ExpectedReward(v, o),
          [at |-> Where,
           wrong |-> {<<st.vals[i].p, o>> : i \in PaidVals, o \in UNION {OwnersAt(st.vals[j].p) : j \in PaidVals}} \cap
                     {po \in (DOMAIN st.cands) \X (UNION {OwnersAt(st.vals[j].p) : j \in PaidVals}) :
                        po[1] \in {st.vals[j].p : j \in PaidVals} /\ po[2] \in OwnersAt(po[1]) /\ ~HasLocked(po[1]) /\
                        LET v == ValOf(st, po[1]) IN
                        HeldAll(st', st.cands[po[1]].id, po[2], Base) -- HeldAll(st, st.cands[po[1]].id, po[2], Base) # ExpectedReward(v, po[2])},
           accum |-> [i \in PaidVals |-> <<st.vals[i].p, AccumAtPayout(st.vals[i])>>]])
C19_Emptied ==
   Clause("C19", "AccumulatorEmptiedAtPayout", IsKind("EndBlock") /\ NoPanic /\ IsPayout,
          \A i \in DOMAIN st'.vals : st'.vals[i].accum = Zero,
          [at |-> Where, left |-> [i \in DOMAIN st'.vals |-> <<st'.vals[i].p, st'.vals[i].accum>>]])
C19_PayoutStep == C19_Payout /\ C19_Emptied

C17_Step == C17_Set /\ C17_Power /\ C17_Slots /\ C17_Totals

StakingStep == C16_Step /\ C18_Step /\ C20_Step /\ C19_Step /\ C19_PayoutStep /\ C17_Step /\ C05_StakingStep
=============================================================================
