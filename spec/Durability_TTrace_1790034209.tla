---- MODULE Durability_TTrace_1790034209 ----
EXTENDS Sequences, TLCExt, Toolbox, Durability, Naturals, TLC

_expression ==
    LET Durability_TEExpression == INSTANCE Durability_TEExpression
    IN Durability_TEExpression!expression
----

_trace ==
    LET Durability_TETrace == INSTANCE Durability_TETrace
    IN Durability_TETrace!trace
----

_inv ==
    ~(
        TLCGet("level") = Len(_TETrace)
        /\
        phase = ("idle")
        /\
        disk = ([price |-> 0, vals |-> 0, height |-> 1, emission |-> 0, versions |-> 0, times |-> <<>>, tree |-> (0 :> <<>> @@ 1 :> <<<<"plain", <<>>>>>>), hash |-> <<<<"plain", <<>>>>>>])
        /\
        ideal = ([price |-> 0, vals |-> 0, st |-> <<<<"plain", <<>>>>>>, height |-> 1, emission |-> 1, versions |-> 0, times |-> <<1>>])
        /\
        mem = ([r |-> [price |-> 0, vals |-> 0, st |-> <<<<"plain", <<>>>>>>, height |-> 1, emission |-> 0, versions |-> 0, times |-> <<>>], dirty |-> [price |-> FALSE, vals |-> FALSE, emission |-> FALSE, versions |-> FALSE], alive |-> TRUE])
        /\
        tm = ([height |-> 1, kind |-> "plain"])
        /\
        faults = (1)
        /\
        pend = (<<>>)
        /\
        scn = (<<[kind |-> "plain", op |-> "block", after |-> "height"]>>)
    )
----

_init ==
    /\ phase = _TETrace[1].phase
    /\ pend = _TETrace[1].pend
    /\ disk = _TETrace[1].disk
    /\ faults = _TETrace[1].faults
    /\ ideal = _TETrace[1].ideal
    /\ tm = _TETrace[1].tm
    /\ scn = _TETrace[1].scn
    /\ mem = _TETrace[1].mem
----

_next ==
    /\ \E i,j \in DOMAIN _TETrace:
        /\ \/ /\ j = i + 1
              /\ i = TLCGet("level")
        /\ phase  = _TETrace[i].phase
        /\ phase' = _TETrace[j].phase
        /\ pend  = _TETrace[i].pend
        /\ pend' = _TETrace[j].pend
        /\ disk  = _TETrace[i].disk
        /\ disk' = _TETrace[j].disk
        /\ faults  = _TETrace[i].faults
        /\ faults' = _TETrace[j].faults
        /\ ideal  = _TETrace[i].ideal
        /\ ideal' = _TETrace[j].ideal
        /\ tm  = _TETrace[i].tm
        /\ tm' = _TETrace[j].tm
        /\ scn  = _TETrace[i].scn
        /\ scn' = _TETrace[j].scn
        /\ mem  = _TETrace[i].mem
        /\ mem' = _TETrace[j].mem

\* Uncomment the ASSUME below to write the states of the error trace
\* to the given file in Json format. Note that you can pass any tuple
\* to `JsonSerialize`. For example, a sub-sequence of _TETrace.
    \* ASSUME
    \*     LET J == INSTANCE Json
    \*         IN J!JsonSerialize("Durability_TTrace_1790034209.json", _TETrace)

=============================================================================

 Note that you can extract this module `Durability_TEExpression`
  to a dedicated file to reuse `expression` (the module in the 
  dedicated `Durability_TEExpression.tla` file takes precedence 
  over the module `Durability_TEExpression` below).

---- MODULE Durability_TEExpression ----
EXTENDS Sequences, TLCExt, Toolbox, Durability, Naturals, TLC

expression == 
    [
        \* To hide variables of the `Durability` spec from the error trace,
        \* remove the variables below.  The trace will be written in the order
        \* of the fields of this record.
        phase |-> phase
        ,pend |-> pend
        ,disk |-> disk
        ,faults |-> faults
        ,ideal |-> ideal
        ,tm |-> tm
        ,scn |-> scn
        ,mem |-> mem
        
        \* Put additional constant-, state-, and action-level expressions here:
        \* ,_stateNumber |-> _TEPosition
        \* ,_phaseUnchanged |-> phase = phase'
        
        \* Format the `phase` variable as Json value.
        \* ,_phaseJson |->
        \*     LET J == INSTANCE Json
        \*     IN J!ToJson(phase)
        
        \* Lastly, you may build expressions over arbitrary sets of states by
        \* leveraging the _TETrace operator.  For example, this is how to
        \* count the number of times a spec variable changed up to the current
        \* state in the trace.
        \* ,_phaseModCount |->
        \*     LET F[s \in DOMAIN _TETrace] ==
        \*         IF s = 1 THEN 0
        \*         ELSE IF _TETrace[s].phase # _TETrace[s-1].phase
        \*             THEN 1 + F[s-1] ELSE F[s-1]
        \*     IN F[_TEPosition - 1]
    ]

=============================================================================



Parsing and semantic processing can take forever if the trace below is long.
 In this case, it is advised to uncomment the module below to deserialize the
 trace from a generated binary file.

\*
\*---- MODULE Durability_TETrace ----
\*EXTENDS IOUtils, Durability, TLC
\*
\*trace == IODeserialize("Durability_TTrace_1790034209.bin", TRUE)
\*
\*=============================================================================
\*

---- MODULE Durability_TETrace ----
EXTENDS Durability, TLC

trace == 
    <<
    ([phase |-> "idle",disk |-> [price |-> 0, vals |-> 0, height |-> 0, emission |-> 0, versions |-> 0, times |-> <<>>, tree |-> (0 :> <<>>), hash |-> <<>>],ideal |-> [price |-> 0, vals |-> 0, st |-> <<>>, height |-> 0, emission |-> 0, versions |-> 0, times |-> <<>>],mem |-> [r |-> [price |-> 0, vals |-> 0, st |-> <<>>, height |-> 0, emission |-> 0, versions |-> 0, times |-> <<>>], dirty |-> [price |-> TRUE, vals |-> FALSE, emission |-> FALSE, versions |-> FALSE], alive |-> TRUE],tm |-> [height |-> 0, kind |-> "plain"],faults |-> 0,pend |-> <<>>,scn |-> <<>>]),
    ([phase |-> "committing",disk |-> [price |-> 0, vals |-> 0, height |-> 0, emission |-> 0, versions |-> 0, times |-> <<>>, tree |-> (0 :> <<>>), hash |-> <<>>],ideal |-> [price |-> 0, vals |-> 0, st |-> <<<<"plain", <<>>>>>>, height |-> 1, emission |-> 1, versions |-> 0, times |-> <<1>>],mem |-> [r |-> [price |-> 0, vals |-> 0, st |-> <<<<"plain", <<>>>>>>, height |-> 1, emission |-> 1, versions |-> 0, times |-> <<1>>], dirty |-> [price |-> TRUE, vals |-> FALSE, emission |-> TRUE, versions |-> FALSE], alive |-> TRUE],tm |-> [height |-> 1, kind |-> "plain"],faults |-> 0,pend |-> <<"events", "tree", "hash", "height", "times", "emission", "price">>,scn |-> <<[kind |-> "plain", op |-> "block"]>>]),
    ([phase |-> "committing",disk |-> [price |-> 0, vals |-> 0, height |-> 0, emission |-> 0, versions |-> 0, times |-> <<>>, tree |-> (0 :> <<>>), hash |-> <<>>],ideal |-> [price |-> 0, vals |-> 0, st |-> <<<<"plain", <<>>>>>>, height |-> 1, emission |-> 1, versions |-> 0, times |-> <<1>>],mem |-> [r |-> [price |-> 0, vals |-> 0, st |-> <<<<"plain", <<>>>>>>, height |-> 1, emission |-> 1, versions |-> 0, times |-> <<1>>], dirty |-> [price |-> TRUE, vals |-> FALSE, emission |-> TRUE, versions |-> FALSE], alive |-> TRUE],tm |-> [height |-> 1, kind |-> "plain"],faults |-> 0,pend |-> <<"tree", "hash", "height", "times", "emission", "price">>,scn |-> <<[kind |-> "plain", op |-> "block"]>>]),
    ([phase |-> "committing",disk |-> [price |-> 0, vals |-> 0, height |-> 0, emission |-> 0, versions |-> 0, times |-> <<>>, tree |-> (0 :> <<>> @@ 1 :> <<<<"plain", <<>>>>>>), hash |-> <<>>],ideal |-> [price |-> 0, vals |-> 0, st |-> <<<<"plain", <<>>>>>>, height |-> 1, emission |-> 1, versions |-> 0, times |-> <<1>>],mem |-> [r |-> [price |-> 0, vals |-> 0, st |-> <<<<"plain", <<>>>>>>, height |-> 1, emission |-> 1, versions |-> 0, times |-> <<1>>], dirty |-> [price |-> TRUE, vals |-> FALSE, emission |-> TRUE, versions |-> FALSE], alive |-> TRUE],tm |-> [height |-> 1, kind |-> "plain"],faults |-> 0,pend |-> <<"hash", "height", "times", "emission", "price">>,scn |-> <<[kind |-> "plain", op |-> "block"]>>]),
    ([phase |-> "committing",disk |-> [price |-> 0, vals |-> 0, height |-> 0, emission |-> 0, versions |-> 0, times |-> <<>>, tree |-> (0 :> <<>> @@ 1 :> <<<<"plain", <<>>>>>>), hash |-> <<<<"plain", <<>>>>>>],ideal |-> [price |-> 0, vals |-> 0, st |-> <<<<"plain", <<>>>>>>, height |-> 1, emission |-> 1, versions |-> 0, times |-> <<1>>],mem |-> [r |-> [price |-> 0, vals |-> 0, st |-> <<<<"plain", <<>>>>>>, height |-> 1, emission |-> 1, versions |-> 0, times |-> <<1>>], dirty |-> [price |-> TRUE, vals |-> FALSE, emission |-> TRUE, versions |-> FALSE], alive |-> TRUE],tm |-> [height |-> 1, kind |-> "plain"],faults |-> 0,pend |-> <<"height", "times", "emission", "price">>,scn |-> <<[kind |-> "plain", op |-> "block"]>>]),
    ([phase |-> "committing",disk |-> [price |-> 0, vals |-> 0, height |-> 1, emission |-> 0, versions |-> 0, times |-> <<>>, tree |-> (0 :> <<>> @@ 1 :> <<<<"plain", <<>>>>>>), hash |-> <<<<"plain", <<>>>>>>],ideal |-> [price |-> 0, vals |-> 0, st |-> <<<<"plain", <<>>>>>>, height |-> 1, emission |-> 1, versions |-> 0, times |-> <<1>>],mem |-> [r |-> [price |-> 0, vals |-> 0, st |-> <<<<"plain", <<>>>>>>, height |-> 1, emission |-> 1, versions |-> 0, times |-> <<1>>], dirty |-> [price |-> TRUE, vals |-> FALSE, emission |-> TRUE, versions |-> FALSE], alive |-> TRUE],tm |-> [height |-> 1, kind |-> "plain"],faults |-> 0,pend |-> <<"times", "emission", "price">>,scn |-> <<[kind |-> "plain", op |-> "block"]>>]),
    ([phase |-> "crashed",disk |-> [price |-> 0, vals |-> 0, height |-> 1, emission |-> 0, versions |-> 0, times |-> <<>>, tree |-> (0 :> <<>> @@ 1 :> <<<<"plain", <<>>>>>>), hash |-> <<<<"plain", <<>>>>>>],ideal |-> [price |-> 0, vals |-> 0, st |-> <<<<"plain", <<>>>>>>, height |-> 1, emission |-> 1, versions |-> 0, times |-> <<1>>],mem |-> [r |-> [price |-> 0, vals |-> 0, st |-> <<<<"plain", <<>>>>>>, height |-> 1, emission |-> 1, versions |-> 0, times |-> <<1>>], dirty |-> [price |-> TRUE, vals |-> FALSE, emission |-> TRUE, versions |-> FALSE], alive |-> FALSE],tm |-> [height |-> 1, kind |-> "plain"],faults |-> 1,pend |-> <<"times", "emission", "price">>,scn |-> <<[kind |-> "plain", op |-> "block", after |-> "height"]>>]),
    ([phase |-> "idle",disk |-> [price |-> 0, vals |-> 0, height |-> 1, emission |-> 0, versions |-> 0, times |-> <<>>, tree |-> (0 :> <<>> @@ 1 :> <<<<"plain", <<>>>>>>), hash |-> <<<<"plain", <<>>>>>>],ideal |-> [price |-> 0, vals |-> 0, st |-> <<<<"plain", <<>>>>>>, height |-> 1, emission |-> 1, versions |-> 0, times |-> <<1>>],mem |-> [r |-> [price |-> 0, vals |-> 0, st |-> <<<<"plain", <<>>>>>>, height |-> 1, emission |-> 0, versions |-> 0, times |-> <<>>], dirty |-> [price |-> FALSE, vals |-> FALSE, emission |-> FALSE, versions |-> FALSE], alive |-> TRUE],tm |-> [height |-> 1, kind |-> "plain"],faults |-> 1,pend |-> <<>>,scn |-> <<[kind |-> "plain", op |-> "block", after |-> "height"]>>])
    >>
----


=============================================================================

---- CONFIG Durability_TTrace_1790034209 ----
CONSTANTS
    Kinds = { "plain" , "price" , "version" , "vals" }
    MaxBlocks = 4
    MaxFaults = 2
    Faults = { "crash" , "restart" }
    AtomicApp = FALSE

INVARIANT
    _inv

CHECK_DEADLOCK
    \* CHECK_DEADLOCK off because of PROPERTY or INVARIANT above.
    FALSE

INIT
    _init

NEXT
    _next

CONSTANT
    _TETrace <- _trace

ALIAS
    _expression
=============================================================================
\* Generated on Mon Sep 21 23:43:30 UTC 2026