------------------------------- MODULE PropsCodec -------------------------------
(***************************************************************************)
(* C23: whatever bytes the node accepts as a transaction are the one        *)
(* canonical encoding of that transaction, carry signature values in the    *)
(* allowed range, and were signed by the account the node takes them from.  *)
(* "Accepted" = the node acted on the bytes: it executed the transaction or *)
(* charged somebody for it.  The strict decoder Codec!Dec is the oracle,    *)
(* independent of the node's RLP library.                                   *)
(***************************************************************************)
EXTENDS PropsRewards, Codec

HasRaw == Delivered /\ "rawb" \in DOMAIN Tx
Raw == Tx.rawb
Acted == Code = 0 \/ st'.bal # st.bal \/ st'.nonce # st.nonce
WhereRaw == [sc |-> ev'.sc, i |-> ev'.i, h |-> ev'.h, tx |-> Tx.id, type |-> Tx.type, code |-> Code, mut |-> Tx.mut, len |-> Len(Raw)]
C23_Canon ==
   Clause("C23", "AcceptedBytesAreTheCanonicalEncoding", HasRaw /\ Acted,
          CanonicalTx(Raw) /\ RoundTrips(Raw),
          [at |-> WhereRaw, decodes |-> Dec(Raw).ok, canonical |-> CanonicalTx(Raw)])
C23_Sig ==
   Clause("C23", "AcceptedSignatureValuesInRange", HasRaw /\ Acted,
          TxSignatureOk(Raw),
          [at |-> WhereRaw])
\* ground truth of the harness: which key produced the signature; the node's view: which account it debits / whose nonce it moves
C23_Signer ==
   Clause("C23", "SenderIsTheSigningKey", HasRaw /\ Code = 0 /\ ~Tx.multi /\ "recovered" \in DOMAIN Tx,
          Tx.recovered = Tx.signerAddr,
          [at |-> WhereRaw, recovered |-> Tx.recovered, signer |-> Tx.signerAddr])
C23_Check ==
   Clause("C23", "RedeemedCheckIsCanonical", HasRaw /\ Code = 0 /\ Tx.type = "RedeemCheck",
          CanonicalCheck(CheckOf(Raw)),
          [at |-> WhereRaw])
C23_Step == C23_Canon /\ C23_Sig /\ C23_Signer /\ C23_Check
=============================================================================
