------------------------------- MODULE PropsMarkets -------------------------------
(***************************************************************************)
(* Coins, bancor conversions, swap pools and limit orders:                 *)
(* C13 (pools never lose value), C14 (orders), C15 (slippage limits and    *)
(* result tags), C21 (checks), C22 (coin registry), C27 for custom         *)
(* commission coins (cheaper of pool route and reserve route).             *)
(***************************************************************************)
EXTENDS PropsStaking

S == Tx.sender
CoinsArg == Arg("coins")
IsSellAll == Tx.type \in {"SellAllCoin", "SellAllSwapPool"}
\* the coin the commission is really taken in: sell-all transactions pay in the coin they sell
FeeCoin == Tx.gasCoin      \* (the harness reports the coin sold as gas coin of sell-all transactions)
FeeAmount == IF HasTag("tx_commission_amount") THEN Tag("tx_commission_amount") ELSE Zero
FeeIn(c) == IF FeeCoin = c THEN FeeAmount ELSE Zero
\* what left / reached the sender's balance besides the commission
Spent(c) == (Bal(st, S, c) -- Bal(st', S, c)) -- FeeIn(c)
Got(c) == (Bal(st', S, c) -- Bal(st, S, c)) ++ FeeIn(c)
OwnsOrders(a) == \E o \in DOMAIN st.orders : st.orders[o].owner = a
InCoin == IF Tx.type \in {"SellCoin", "SellAllCoin", "BuyCoin"} THEN Arg("sell") ELSE CoinsArg[1]
OutCoin == IF Tx.type \in {"SellCoin", "SellAllCoin", "BuyCoin"} THEN Arg("buy") ELSE CoinsArg[Len(CoinsArg)]
Plain == Delivered /\ Code = 0 /\ Tx.intact /\ ~OwnsOrders(S) /\ S # "zero"

\* ======================================================================== C15
C15_Sell ==
   Clause("C15", "SellHonoursMinimum", Plain /\ Tx.type \in {"SellCoin", "SellSwapPool"} /\ InCoin # OutCoin,
          /\ Spent(InCoin) = Arg("value")
          /\ Arg("min") \preceq Got(OutCoin)
          /\ Tag("tx_return") = Got(OutCoin),
          [at |-> WhereTx, spent |-> Spent(InCoin), got |-> Got(OutCoin), min |-> Arg("min"), tagReturn |-> Tag("tx_return"), value |-> Arg("value")])
C15_Buy ==
   Clause("C15", "BuyHonoursMaximum", Plain /\ Tx.type \in {"BuyCoin", "BuySwapPool"} /\ InCoin # OutCoin,
          /\ Got(OutCoin) = Arg("value")
          /\ Spent(InCoin) \preceq Arg("max")
          /\ Tag("tx_return") = Spent(InCoin),
          [at |-> WhereTx, spent |-> Spent(InCoin), got |-> Got(OutCoin), max |-> Arg("max"), tagReturn |-> Tag("tx_return"), value |-> Arg("value")])
C15_SellAll ==
   Clause("C15", "SellAllSellsBalanceMinusFee", Plain /\ IsSellAll /\ InCoin # OutCoin,
          /\ Bal(st', S, InCoin) = Zero
          /\ Tag("tx_sell_amount") \in {Bal(st, S, InCoin), Bal(st, S, InCoin) -- FeeAmount}      \* the tag reports the whole debit or the part sold
          /\ Arg("min") \preceq Got(OutCoin)
          /\ Tag("tx_return") = Got(OutCoin),
          [at |-> WhereTx, before |-> Bal(st, S, InCoin), after |-> Bal(st', S, InCoin), fee |-> FeeAmount, sold |-> Tag("tx_sell_amount"),
           got |-> Got(OutCoin), min |-> Arg("min"), tagReturn |-> Tag("tx_return")])
C15_Step == C15_Sell /\ C15_Buy /\ C15_SellAll

\* ======================================================================== C13
PoolIds == DOMAIN st.pools \cap DOMAIN st'.pools
KOf(s, p) == s.pools[p].r0 ** s.pools[p].r1
LiquidityTx == Delivered /\ Code = 0 /\ Tx.type \in {"AddLiquidity", "RemoveLiquidity", "CreateSwapPool"}
C13_K ==
   Clause("C13", "ProductOfReservesNeverShrinks", NoPanic /\ "st" \in DOMAIN ev' /\ ~LiquidityTx /\ (\E p \in PoolIds : st'.pools[p] # st.pools[p]),
          \A p \in PoolIds : KOf(st, p) \preceq KOf(st', p),
          [at |-> Where, pools |-> [p \in {q \in PoolIds : st'.pools[q] # st.pools[q]} |-> <<st.pools[p].r0, st.pools[p].r1, st'.pools[p].r0, st'.pools[p].r1>>]])
PoolOf(s, a, b) == {p \in DOMAIN s.pools : {s.pools[p].c0, s.pools[p].c1} = {a, b}}
LpVol(s, p) == s.coins[s.pools[p].lp].vol
\* the commission of this transaction is converted through the pool the transaction itself works on
FeeThroughPool == Tx.gasCoin # Base /\ {Arg("c0"), Arg("c1")} = {Base, Tx.gasCoin}
C13_Remove ==
   Clause("C13", "RemoveLiquidityAtMostProportionalShare", Delivered /\ Code = 0 /\ Tx.type = "RemoveLiquidity" /\ Tx.intact /\ ~FeeThroughPool,
          \A p \in PoolOf(st, Arg("c0"), Arg("c1")) :
             LET q == st.pools[p]  q2 == st'.pools[p]  sup == LpVol(st, p)  L == Arg("liquidity")
                 out0 == q.r0 -- q2.r0  out1 == q.r1 -- q2.r1
             IN /\ (out0 ** sup) \preceq (L ** q.r0) /\ (out1 ** sup) \preceq (L ** q.r1)
                /\ LpVol(st', p) = sup -- L
                /\ ~OwnsOrders(S) => (Got(q.c0) = out0 /\ Got(q.c1) = out1 /\ Spent(q.lp) = L),
          [at |-> WhereTx, before |-> [p \in PoolOf(st, Arg("c0"), Arg("c1")) |-> st.pools[p]], after |-> [p \in PoolOf(st', Arg("c0"), Arg("c1")) |-> st'.pools[p]]])
C13_Add ==
   Clause("C13", "AddLiquidityMintsAtMostProportionalShare", Delivered /\ Code = 0 /\ Tx.type = "AddLiquidity" /\ Tx.intact /\ ~FeeThroughPool,
          \A p \in PoolOf(st, Arg("c0"), Arg("c1")) :
             LET q == st.pools[p]  q2 == st'.pools[p]  sup == LpVol(st, p)
                 in0 == q2.r0 -- q.r0  in1 == q2.r1 -- q.r1  minted == LpVol(st', p) -- sup
             IN /\ (minted ** q.r0) \preceq (in0 ** sup)
                /\ Zero \prec minted
                \* removing the minted pool tokens right away would not return more of either coin than was put in
                /\ (minted ** q2.r0) // LpVol(st', p) \preceq in0 /\ (minted ** q2.r1) // LpVol(st', p) \preceq in1
                /\ ~OwnsOrders(S) => (Spent(q.c0) = in0 /\ Spent(q.c1) = in1 /\ Got(q.lp) = minted),
          [at |-> WhereTx, before |-> [p \in PoolOf(st, Arg("c0"), Arg("c1")) |-> st.pools[p]], after |-> [p \in PoolOf(st', Arg("c0"), Arg("c1")) |-> st'.pools[p]],
           supply |-> [p \in PoolOf(st, Arg("c0"), Arg("c1")) |-> <<LpVol(st, p), LpVol(st', p)>>], v0 |-> Arg("v0"), gas |-> Tx.gasCoin])
LpCoins(s) == {c \in DOMAIN s.coins : s.coins[c].kind = "lp"}
C13_Locked ==
   Clause("C13", "MinimumLiquidityStaysLocked", NoPanic /\ "st" \in DOMAIN ev' /\ LpCoins(st') # {},
          \A c \in LpCoins(st') : /\ Nat2A(1000) \preceq Bal(st', "zero", c)
                                  /\ c \in LpCoins(st) => Bal(st, "zero", c) \preceq Bal(st', "zero", c),
          [at |-> Where, locked |-> [c \in LpCoins(st') |-> Bal(st', "zero", c)]])
C13_Create ==
   Clause("C13", "PoolCreationLocksMinimumLiquidity", Delivered /\ Code = 0 /\ Tx.type = "CreateSwapPool" /\ Tx.intact,
          \A p \in PoolOf(st', Arg("c0"), Arg("c1")) :
             /\ p \notin DOMAIN st.pools
             /\ LpVol(st', p) = ASqrt(Arg("v0") ** Arg("v1"))
             /\ Bal(st', "zero", st'.pools[p].lp) = Nat2A(1000)
             /\ Bal(st', S, st'.pools[p].lp) = LpVol(st', p) -- Nat2A(1000),
          [at |-> WhereTx, pool |-> [p \in PoolOf(st', Arg("c0"), Arg("c1")) |-> st'.pools[p]]])
C13_Step == C13_K /\ C13_Remove /\ C13_Add /\ C13_Locked /\ C13_Create

\* ======================================================================== C14
OrderIds == DOMAIN st.orders
GoneOrders == DOMAIN st.orders \ DOMAIN st'.orders
NewOrders == DOMAIN st'.orders \ DOMAIN st.orders
C14_Add ==
   Clause("C14", "AddOrderEscrowsExactly", Delivered /\ Code = 0 /\ Tx.type = "AddLimitOrder" /\ Tx.intact,
          /\ GoneOrders = {}
          /\ Cardinality(NewOrders) = 1
          /\ \A o \in NewOrders : LET r == st'.orders[o] IN
                /\ r.owner = S /\ r.sellCoin = Arg("sell") /\ r.buyCoin = Arg("buy") /\ r.sell = Arg("sellValue") /\ r.buy = Arg("buyValue") /\ r.h = H
                /\ Tag("tx_order_id") = o
                /\ st'.nextOrder = st.nextOrder + 1
          /\ Spent(Arg("sell")) = Arg("sellValue"),
          [at |-> WhereTx, new |-> [o \in NewOrders |-> st'.orders[o]], spent |-> Spent(Arg("sell")), nextBefore |-> st.nextOrder])
C14_Cancel ==
   Clause("C14", "CancelOnlyByOwnerRefundsExactly", Delivered /\ Code = 0 /\ Tx.type = "RemoveLimitOrder" /\ Tx.intact,
          LET o == ToString(Arg("order")) IN
          /\ o \in DOMAIN st.orders
          /\ st.orders[o].owner = S
          /\ GoneOrders = {o} /\ NewOrders = {}
          /\ Got(st.orders[o].sellCoin) = st.orders[o].sell,
          [at |-> WhereTx, order |-> Arg("order"), gone |-> GoneOrders,
           refund |-> (IF ToString(Arg("order")) \in DOMAIN st.orders THEN Got(st.orders[ToString(Arg("order"))].sellCoin) ELSE Zero)])
C14_IdsFresh ==
   Clause("C14", "OrderIdsNeverReused", NoPanic /\ "st" \in DOMAIN ev' /\ NewOrders # {},
          \A o \in NewOrders : \E k \in st.nextOrder..(st'.nextOrder - 1) : ToString(k) = o,
          [at |-> Where, new |-> NewOrders, nextBefore |-> st.nextOrder, nextAfter |-> st'.nextOrder])
\* expiry: only at EndBlock, only orders older than the period, refund = unfilled amount
BalAll(s, a, c) == Bal(s, a, c)
ExpiredRefund(a, c) == SumOver(SelectSeq(SeqOfRange(st.orders), LAMBDA o : o.owner = a /\ o.sellCoin = c /\ (\E id \in GoneOrders : st.orders[id] = o)), LAMBDA o : o.sell)
C14_Expire ==
   Clause("C14", "ExpiryRefundsExactlyAndOnlyOldOrders", IsKind("EndBlock") /\ NoPanic /\ GoneOrders # {},
          /\ \A o \in GoneOrders : st.orders[o].h + Cfg.expirePeriod <= H
          /\ \A o \in GoneOrders : Bal(st, st.orders[o].owner, st.orders[o].sellCoin) ++ st.orders[o].sell \preceq Bal(st', st.orders[o].owner, st.orders[o].sellCoin),
          [at |-> Where, gone |-> [o \in GoneOrders |-> st.orders[o]]])
C14_NoSilentRemoval ==
   Clause("C14", "OrdersLeaveOnlyByFillCancelOrExpiry", NoPanic /\ "st" \in DOMAIN ev' /\ ev'.kind \in {"BeginBlock", "Commit", "CheckTx"},
          st'.orders = st.orders, [at |-> Where, gone |-> GoneOrders])
\* fills: a touched order keeps its price (within one unit) and its owner is paid at that price
Touched == {o \in DOMAIN st.orders \cap DOMAIN st'.orders : st'.orders[o] # st.orders[o]}
AbsDiff(a, b) == IF a \preceq b THEN b -- a ELSE a -- b
C14_PriceKept ==
   Clause("C14", "PartialFillKeepsPrice", NoPanic /\ "st" \in DOMAIN ev' /\ Touched # {},
          \A o \in Touched : LET a == st.orders[o]  b == st'.orders[o] IN
             /\ b.sell \preceq a.sell /\ b.buy \preceq a.buy /\ b.owner = a.owner /\ b.sellCoin = a.sellCoin /\ b.h = a.h
             /\ AbsDiff(b.sell ** a.buy, a.sell ** b.buy) \preceq AMax(a.sell, a.buy),
          [at |-> Where, touched |-> [o \in Touched |-> <<st.orders[o].sell, st.orders[o].buy, st'.orders[o].sell, st'.orders[o].buy>>]])
MinOrderVolume == Nat2A(10000) ** Nat2A(1000000)
C14_Dust ==
   Clause("C14", "NoOrderBelowMinimumVolume", NoPanic /\ "st" \in DOMAIN ev',
          \A o \in DOMAIN st'.orders : MinOrderVolume \preceq st'.orders[o].sell /\ MinOrderVolume \preceq st'.orders[o].buy,
          [at |-> Where, small |-> {o \in DOMAIN st'.orders : st'.orders[o].sell \prec MinOrderVolume \/ st'.orders[o].buy \prec MinOrderVolume}])
\* priority: no untouched order on the same side offered the taker a strictly better price than an order that was consumed
Consumed == Touched \cup {o \in GoneOrders : ev'.kind = "DeliverTx" /\ ~(Code = 0 /\ Tx.type = "RemoveLimitOrder")}
Better(u, f) == (f.sell ** u.buy) \prec (u.sell ** f.buy)      \* u gives more per unit wanted than f
ClearlyBetter(u, f) == ((f.sell ** u.buy) ** Nat2A(1000001)) \prec ((u.sell ** f.buy) ** Nat2A(1000000))
C14_Priority ==
   Clause("C14", "BestPriceFirst", Delivered /\ Consumed # {},
          \A f \in Consumed : \A u \in (DOMAIN st.orders \cap DOMAIN st'.orders) \ Touched :
             (st.orders[u].pool = st.orders[f].pool /\ st.orders[u].sellCoin = st.orders[f].sellCoin) =>
                ~ClearlyBetter(st.orders[u], st.orders[f]),
          [at |-> WhereTx, consumed |-> [o \in Consumed |-> <<st.orders[o].sell, st.orders[o].buy>>],
           untouched |-> [o \in (DOMAIN st.orders \cap DOMAIN st'.orders) \ Touched |-> <<st.orders[o].sell, st.orders[o].buy, st.orders[o].sellCoin>>]])
\* what the maker gets: an order that a trade fills (partly or completely) pays its owner exactly the wanted amount of the part
\* filled; an order that a trade closes (filled completely, or left with a remainder below the minimum volume) has paid, in
\* wanted coins at the order's price plus refunded escrow, exactly what was escrowed (within the rounding of one unit per side).
\* Evaluated for owners with a single order consumed in the step who are neither the sender nor a recipient of the transaction.
OwnersOf(os) == {st.orders[o].owner : o \in os}
OrdersOfIn(x, os) == {o \in os : st.orders[o].owner = x}
GainOf(x, c) == Bal(st', x, c) -- Bal(st, x, c)
\* accounts the transaction itself pays (a Send whose commission is converted through the order book may name a maker as its recipient)
Recipients == IF Tx.type = "Send" /\ HasArg("to") THEN {Arg("to")}
              ELSE IF Tx.type = "Multisend" /\ HasArg("list") THEN {Arg("list")[i].to : i \in DOMAIN Arg("list")}
              ELSE {}
C14_OwnerPaid ==
   Clause("C14", "MakerPaidAtOrderPriceAndRefundedExactly", Delivered /\ Code = 0 /\ Consumed # {},
          \A x \in OwnersOf(Consumed) \ ({S} \cup Recipients) :
             (Cardinality(OrdersOfIn(x, Consumed)) = 1) =>
                LET o == CHOOSE q \in OrdersOfIn(x, Consumed) : TRUE
                    a == st.orders[o]
                IN IF o \in DOMAIN st'.orders
                   THEN /\ GainOf(x, a.buyCoin) = a.buy -- st'.orders[o].buy
                        /\ GainOf(x, a.sellCoin) = Zero
                   ELSE AbsDiff((a.sell ** GainOf(x, a.buyCoin)) ++ (a.buy ** GainOf(x, a.sellCoin)), a.sell ** a.buy)
                           \preceq (Nat2A(2) ** (a.sell ++ a.buy)),
          [at |-> WhereTx, makers |-> [x \in OwnersOf(Consumed) \ {S} |->
                                         [orders |-> [o \in OrdersOfIn(x, Consumed) |-> <<st.orders[o].sell, st.orders[o].buy, st.orders[o].sellCoin, st.orders[o].buyCoin,
                                                                                           IF o \in DOMAIN st'.orders THEN st'.orders[o].sell ELSE "gone">>],
                                          gains |-> [c \in AllCoins(st, st') |-> GainOf(x, c)]]]])
C14_Step == C14_Add /\ C14_Cancel /\ C14_IdsFresh /\ C14_Expire /\ C14_NoSilentRemoval /\ C14_PriceKept /\ C14_Dust /\ C14_Priority /\ C14_OwnerPaid

\* ======================================================================== C22
ActiveSyms(s) == [c \in {x \in DOMAIN s.coins : s.coins[x].ver = 0} |-> s.coins[c].sym]
C22_Unique ==
   Clause("C22", "ActiveTickersUnique", NoPanic /\ "st" \in DOMAIN ev' /\ st'.coins # st.coins,
          \A a, b \in DOMAIN ActiveSyms(st') : a # b => ActiveSyms(st')[a] # ActiveSyms(st')[b],
          [at |-> Where, syms |-> ActiveSyms(st')])
NewCoins == DOMAIN st'.coins \ DOMAIN st.coins
C22_FreshIds ==
   Clause("C22", "NewCoinsGetNextUnusedId", NoPanic /\ "st" \in DOMAIN ev' /\ (NewCoins # {} \/ st'.nextCoin # st.nextCoin),
          /\ DOMAIN st.coins \subseteq DOMAIN st'.coins
          /\ st'.nextCoin = st.nextCoin + Cardinality(NewCoins)
          /\ \A c \in NewCoins : \E k \in st.nextCoin..(st'.nextCoin - 1) : ToString(k) = c
          /\ \A c \in NewCoins : st'.coins[c].ver = 0,
          [at |-> Where, new |-> NewCoins, nextBefore |-> st.nextCoin, nextAfter |-> st'.nextCoin])
OwnerOfSym(s, sym) == LET cs == {c \in DOMAIN s.coins : s.coins[c].sym = sym /\ s.coins[c].ver = 0} IN
                      IF cs = {} THEN "" ELSE s.coins[CHOOSE c \in cs : TRUE].owner
C22_Recreate ==
   Clause("C22", "RecreateKeepsOldCoinUnderNewVersion", Delivered /\ Code = 0 /\ Tx.type \in {"RecreateCoin", "RecreateToken"} /\ Tx.intact,
          LET old == {c \in DOMAIN st.coins : st.coins[c].sym = Arg("symbol") /\ st.coins[c].ver = 0} IN
          /\ OwnerOfSym(st, Arg("symbol")) = S
          /\ Cardinality(old) = 1 /\ Cardinality(NewCoins) = 1
          /\ \A c \in old : /\ st'.coins[c].ver > 0
                            /\ \A d \in DOMAIN st.coins : st.coins[d].sym = Arg("symbol") => st.coins[d].ver < st'.coins[c].ver
          /\ \A n \in NewCoins : st'.coins[n].sym = Arg("symbol") /\ st'.coins[n].ver = 0 /\ st'.coins[n].owner = S,
          [at |-> WhereTx, owner |-> OwnerOfSym(st, Arg("symbol")), new |-> NewCoins])
C22_OwnerOnly ==
   Clause("C22", "OnlyTickerOwnerControls", Delivered /\ Code = 0 /\ Tx.type \in {"EditCoinOwner", "MintToken"} /\ Tx.intact,
          IF Tx.type = "EditCoinOwner" THEN OwnerOfSym(st, Arg("symbol")) = S /\ OwnerOfSym(st', Arg("symbol")) = Arg("newOwner")
          ELSE /\ Arg("coin") \in DOMAIN st.coins /\ st.coins[Arg("coin")].owner = S /\ st.coins[Arg("coin")].mint
               /\ st'.coins[Arg("coin")].vol = st.coins[Arg("coin")].vol ++ Arg("value")
               /\ st'.coins[Arg("coin")].vol \preceq st'.coins[Arg("coin")].max,
          [at |-> WhereTx, sender |-> S])
\* a coin's volume or ownership changes only through the transactions entitled to change it
VolChanged == {c \in DOMAIN st.coins \cap DOMAIN st'.coins : st'.coins[c].vol # st.coins[c].vol}
C22_LpVolume ==
   Clause("C22", "PoolTokensMintedOnlyByLiquidity", NoPanic /\ "st" \in DOMAIN ev' /\ (\E c \in VolChanged : st.coins[c].kind = "lp"),
          Delivered /\ Code = 0 /\ Tx.type \in {"AddLiquidity", "RemoveLiquidity"},
          [at |-> Where, changed |-> VolChanged])
C22_TokenVolume ==
   Clause("C22", "TokenVolumeOnlyByMintAndBurn", NoPanic /\ "st" \in DOMAIN ev' /\ (\E c \in VolChanged : st.coins[c].kind = "token"),
          Delivered /\ Code = 0 /\ Tx.type \in {"MintToken", "BurnToken"},
          [at |-> Where, changed |-> VolChanged])
C22_OwnerField ==
   Clause("C22", "OwnerChangesOnlyByOwnerTransactions", NoPanic /\ "st" \in DOMAIN ev',
          \A c \in DOMAIN st.coins \cap DOMAIN st'.coins :
             (st'.coins[c].owner # st.coins[c].owner \/ st'.coins[c].ver # st.coins[c].ver \/ st'.coins[c].sym # st.coins[c].sym
                \/ st'.coins[c].max # st.coins[c].max \/ st'.coins[c].crr # st.coins[c].crr) =>
             (Delivered /\ Code = 0 /\ Tx.type \in {"EditCoinOwner", "RecreateCoin", "RecreateToken"} /\ S = OwnerOfSym(st, st.coins[c].sym)),
          [at |-> Where])
C22_Step == C22_Unique /\ C22_FreshIds /\ C22_Recreate /\ C22_OwnerOnly /\ C22_LpVolume /\ C22_TokenVolume /\ C22_OwnerField

\* ======================================================================== C21
C21_Redeem ==
   Clause("C21", "RedemptionRules", Delivered /\ Code = 0 /\ Tx.type = "RedeemCheck" /\ Tx.intact,
          /\ H <= Arg("due")
          /\ Arg("checkChain") = Cfg.chain
          /\ Arg("proofOk")
          /\ ~(\E i \in DOMAIN st.checksUsed : st.checksUsed[i] = Arg("check"))
          /\ \E i \in DOMAIN st'.checksUsed : st'.checksUsed[i] = Arg("check")
          /\ Tx.gasCoin = Arg("checkGasCoin") /\ Tx.gasPrice = One
          /\ (Arg("issuer") # S => /\ Bal(st', S, Arg("checkCoin")) = Bal(st, S, Arg("checkCoin")) ++ Arg("value")
                                   /\ (Bal(st, Arg("issuer"), Arg("checkCoin")) -- Bal(st', Arg("issuer"), Arg("checkCoin")))
                                        = Arg("value") ++ (IF Arg("checkCoin") = Tx.gasCoin THEN FeeAmount ELSE Zero)),
          [at |-> WhereTx, due |-> Arg("due"), proofOk |-> Arg("proofOk"), used |-> st.checksUsed])
C21_Monotone ==
   Clause("C21", "UsedChecksNeverForgotten", NoPanic /\ "st" \in DOMAIN ev' /\ st.checksUsed # <<>>,
          Range(st.checksUsed) \subseteq Range(st'.checksUsed),
          [at |-> Where, before |-> st.checksUsed, after |-> st'.checksUsed])
\* the value and the fee are paid from what the issuer holds: a redemption succeeds only if the issuer can afford both
C21_Funds ==
   Clause("C21", "IssuerPaysFromWhatItHolds", Delivered /\ Code = 0 /\ Tx.type = "RedeemCheck" /\ Tx.intact /\ HasArg("issuer"),
          /\ (Arg("value") ++ (IF Arg("checkCoin") = Tx.gasCoin THEN FeeAmount ELSE Zero)) \preceq Bal(st, Arg("issuer"), Arg("checkCoin"))
          /\ FeeAmount \preceq Bal(st, Arg("issuer"), Tx.gasCoin)
          /\ Zero \preceq Bal(st', Arg("issuer"), Arg("checkCoin")) /\ Zero \preceq Bal(st', Arg("issuer"), Tx.gasCoin),
          [at |-> WhereTx, issuer |-> Arg("issuer"), held |-> Bal(st, Arg("issuer"), Arg("checkCoin")), value |-> Arg("value"), fee |-> FeeAmount])
C21_Step == C21_Redeem /\ C21_Monotone /\ C21_Funds

\* ======================================================================== C27 (custom commission coin)
\* pool route: amount of the gas coin to sell for `out` base coins (exact integer formula of the swap pool, 0.2% fee, rounded up)
SellForBuy(rIn, rOut, out) == ((((rIn ** rOut) ** Nat2A(1000000)) // ((rOut -- out) ** Nat2A(1000))) -- (rIn ** Nat2A(1000))) // Nat2A(998) ++ One
GasPools == PoolOf(st, Base, Tx.gasCoin)
PoolHasOrders(p) == \E o \in DOMAIN st.orders : st.orders[o].pool = p
CeilDiv(a, b) == (a ++ (b -- One)) // b
\* trades that may cross orders add the order-book commission of 1/999 (rounded up) on top
PoolQuote(p) == LET q == st.pools[p]
                    x == IF q.c0 = Tx.gasCoin THEN SellForBuy(q.r0, q.r1, PriceOf) ELSE SellForBuy(q.r1, q.r0, PriceOf)
                IN x ++ CeilDiv(x, Nat2A(999))
\* the pool route exists only if the pool holds more base coin than the commission
PoolCanPay(p) == LET q == st.pools[p] IN PriceOf \prec (IF q.c0 = Base THEN q.r0 ELSE q.r1)
GasCoinRec == st.coins[Tx.gasCoin]
\* reserve route for a coin with reserve ratio 100%: exact
ReserveQuote100 == (PriceOf ** GasCoinRec.vol) // GasCoinRec.res
CustomGas == Delivered /\ Code = 0 /\ Tx.intact /\ BasePriced /\ ~BaseGas /\ ~IsSellAll /\ Tx.gasCoin \in DOMAIN st.coins /\ Tx.type # "RedeemCheck"
C27_Cheaper ==
   Clause("C27", "CustomCoinCommissionIsCheaperRoute", CustomGas /\ (GasPools # {} \/ (GasCoinRec.kind = "bancor" /\ GasCoinRec.crr = 100)),
          /\ \A p \in GasPools : (~PoolHasOrders(p) /\ PoolCanPay(p)) =>
                /\ FeeAmount \preceq PoolQuote(p)
                /\ (Tag("tx_commission_conversion") = "pool" => FeeAmount = PoolQuote(p))
                /\ (GasCoinRec.kind # "bancor" => FeeAmount = PoolQuote(p))
          /\ (GasCoinRec.kind = "bancor" /\ GasCoinRec.crr = 100) =>
                /\ FeeAmount \preceq ReserveQuote100
                /\ (Tag("tx_commission_conversion") = "bancor" => FeeAmount = ReserveQuote100),
          [at |-> WhereTx, charged |-> FeeAmount, route |-> Tag("tx_commission_conversion"), price |-> PriceOf,
           poolQuote |-> [p \in GasPools |-> PoolQuote(p)], gasCoin |-> Tx.gasCoin])
C27_CustomPool ==
   Clause("C27", "CustomCoinCommissionReachesRewardPool", CustomGas,
          /\ Tag("tx_commission_conversion") = "bancor" => PoolGain = PriceOf -- TickerPart
          /\ Spent(Tx.gasCoin) \preceq Spent(Tx.gasCoin),
          [at |-> WhereTx, gain |-> PoolGain, price |-> PriceOf])
C27_CustomStep == C27_Cheaper /\ C27_CustomPool

MarketsStep == C15_Step /\ C13_Step /\ C14_Step /\ C22_Step /\ C21_Step /\ C27_CustomStep
=============================================================================
