------------------------------- MODULE State -------------------------------
(***************************************************************************)
(* The abstract state of the Minter chain and pure helper operators on it. *)
(*                                                                         *)
(* A state is a record `s` with the fields listed in StateFields.  The     *)
(* same record shape is produced by the model (Minter*.tla, small native   *)
(* integers) and by the harness' projections of the real node (decimal     *)
(* strings), so every operator below works on both; all arithmetic goes    *)
(* through module Amount.                                                  *)
(*                                                                         *)
(*   bal[a][c]      account balances (absent = zero)                       *)
(*   nonce[a], lockUntil[a], msig[a] = [threshold, owners, seq]            *)
(*   coins[c] = [sym, ver, kind, vol, res, crr, max, owner, mint, burn]    *)
(*   cands[p] = [id, owner, control, reward, status, jailedUntil, comm,    *)
(*               lastEdit, total, stakes, upd]   stakes/upd: seq of [o,c,v,bv] *)
(*   wait: seq of [o,id,c,v]     frozen: seq of [due,o,id,key,c,v,to]      *)
(*   pools[id] = [c0,c1,r0,r1,lp]                                          *)
(*   orders[id] = [pool,sellCoin,buyCoin,sell,buy,owner,h]                 *)
(*   vals: seq of [p, stake, accum, absent, bits, toDrop]                  *)
(*   rewardPool, slashed, emission, reward, safeReward, priceRec, price,   *)
(*   priceCoin, checksUsed, haltVotes, commVotes, updVotes, versions ...   *)
(***************************************************************************)
EXTENDS Amount, Integers, Sequences, FiniteSets, SequencesExt, TLC

Base == "0"                      \* id of the base coin

\* ---------------------------------------------------------------- generic
Dom(f) == DOMAIN f
Get(f, k, d) == IF k \in DOMAIN f THEN f[k] ELSE d
Keys(f) == SetToSeq(DOMAIN f)
MapSeq(s, Op(_)) == [i \in 1..Len(s) |-> Op(s[i])]
SumOver(s, Op(_)) == SumSeq([i \in 1..Len(s) |-> Op(s[i])])
RECURSIVE FlatSeq(_)
FlatSeq(ss) == IF ss = <<>> THEN <<>> ELSE Head(ss) \o FlatSeq(Tail(ss))
SeqOfRange(f) == LET ks == Keys(f) IN [i \in 1..Len(ks) |-> f[ks[i]]]
\* all fields of two records equal, except those in `ex`
SameExcept(s, t, ex) == /\ DOMAIN s = DOMAIN t
                        /\ \A f \in DOMAIN s \ ex : s[f] = t[f]
DiffFields(s, t) == {f \in DOMAIN s \cup DOMAIN t : f \notin DOMAIN s \/ f \notin DOMAIN t \/ s[f] # t[f]}
\* bag (multiset) view of a sequence
BagOf(s) == [x \in Range(s) |-> Cardinality({i \in 1..Len(s) : s[i] = x})]
\* number of occurrences
CountIn(s, x) == Cardinality({i \in 1..Len(s) : s[i] = x})

\* two states are the same abstract state: list-valued fields are bags (the order of entries is not part of the abstraction)
BagFields == {"frozen", "wait", "checksUsed", "haltVotes", "commVotes", "updVotes", "deleted", "blocked"}
CandEq(c, d) == /\ SameExcept(c, d, {"stakes", "upd"})
                /\ BagOf(c.stakes) = BagOf(d.stakes) /\ BagOf(c.upd) = BagOf(d.upd)
\* the voters of a proposal are a set (the projection lists them sorted, the node in order of arrival)
VoteFields == {"haltVotes", "commVotes", "updVotes"}
VoteNorm(v) == [h |-> v.h, what |-> v.what, votes |-> Range(v.votes)]
SameField(s, t, f) ==
   IF f \in VoteFields THEN BagOf(MapSeq(s[f], VoteNorm)) = BagOf(MapSeq(t[f], VoteNorm))
   ELSE IF f \in BagFields THEN BagOf(s[f]) = BagOf(t[f])
   ELSE IF f = "cands" THEN DOMAIN s.cands = DOMAIN t.cands /\ \A p \in DOMAIN s.cands : CandEq(s.cands[p], t.cands[p])
   ELSE s[f] = t[f]
StateDiff(s, t) == {f \in DOMAIN s \cup DOMAIN t : f \notin DOMAIN s \/ f \notin DOMAIN t \/ ~SameField(s, t, f)}
SameState(s, t) == StateDiff(s, t) = {}

\* ---------------------------------------------------------------- accounts
Bal(s, a, c) == IF a \in DOMAIN s.bal /\ c \in DOMAIN s.bal[a] THEN s.bal[a][c] ELSE Zero
NonceOf(s, a) == Get(s.nonce, a, 0)
LockOf(s, a) == Get(s.lockUntil, a, 0)
Accounts(s) == DOMAIN s.bal
CoinIds(s) == DOMAIN s.coins          \* custom coins (base coin is implicit)
AllAccounts(s, t) == DOMAIN s.bal \cup DOMAIN t.bal
AllCoins(s, t) == {Base} \cup DOMAIN s.coins \cup DOMAIN t.coins

\* ---------------------------------------------------------------- holdings
SumBal(s, c) == SumOver(Keys(s.bal), LAMBDA a : Bal(s, a, c))
CandSeq(s) == SeqOfRange(s.cands)
AllStakes(s) == FlatSeq(MapSeq(CandSeq(s), LAMBDA cd : cd.stakes))
AllUpdates(s) == FlatSeq(MapSeq(CandSeq(s), LAMBDA cd : cd.upd))
SumField(sq, c) == SumOver(SelectSeq(sq, LAMBDA x : x.c = c), LAMBDA x : x.v)
SumStakes(s, c) == SumField(AllStakes(s), c)
SumUpdates(s, c) == SumField(AllUpdates(s), c)
SumWait(s, c) == SumField(s.wait, c)
SumFrozen(s, c) == SumField(s.frozen, c)
PoolSeq(s) == SeqOfRange(s.pools)
SumPools(s, c) == SumOver(PoolSeq(s), LAMBDA p : (IF p.c0 = c THEN p.r0 ELSE Zero) ++ (IF p.c1 = c THEN p.r1 ELSE Zero))
OrderSeq(s) == SeqOfRange(s.orders)
SumOrders(s, c) == SumOver(SelectSeq(OrderSeq(s), LAMBDA o : o.sellCoin = c), LAMBDA o : o.sell)

\* everything that holds coin c
Holdings(s, c) == SumBal(s, c) ++ SumStakes(s, c) ++ SumUpdates(s, c) ++ SumWait(s, c)
                  ++ SumFrozen(s, c) ++ SumPools(s, c) ++ SumOrders(s, c)

SumReserves(s) == SumOver(SeqOfRange(s.coins), LAMBDA cn : cn.res)
SumAccum(s) == SumOver(s.vals, LAMBDA v : v.accum)
\* the base-coin total of the property: holdings + bancor reserves + accumulated rewards + total slashed
BaseTotal(s) == Holdings(s, Base) ++ SumReserves(s) ++ SumAccum(s) ++ s.slashed

\* ---------------------------------------------------------------- amounts of a state, for sign checks
AllAmounts(s) ==
      FlatSeq(MapSeq(Keys(s.bal), LAMBDA a : SeqOfRange(s.bal[a])))
   \o MapSeq(SeqOfRange(s.coins), LAMBDA cn : cn.vol)
   \o MapSeq(SeqOfRange(s.coins), LAMBDA cn : cn.res)
   \o MapSeq(AllStakes(s), LAMBDA x : x.v)
   \o MapSeq(AllUpdates(s), LAMBDA x : x.v)
   \o MapSeq(s.wait, LAMBDA x : x.v)
   \o MapSeq(s.frozen, LAMBDA x : x.v)
   \o MapSeq(PoolSeq(s), LAMBDA p : p.r0) \o MapSeq(PoolSeq(s), LAMBDA p : p.r1)
   \o MapSeq(OrderSeq(s), LAMBDA o : o.sell) \o MapSeq(OrderSeq(s), LAMBDA o : o.buy)
   \o MapSeq(s.vals, LAMBDA v : v.accum)
   \o <<s.slashed, s.rewardPool>>

\* ---------------------------------------------------------------- multisig
IsMsig(s, a) == a \in DOMAIN s.msig
\* signatures `signers` (a sequence of names) authorise multisig account a
MsigAuthorizes(s, a, signers) ==
   /\ IsMsig(s, a)
   /\ Len(signers) <= 32
   /\ Cardinality(Range(signers)) = Len(signers)                       \* distinct
   /\ LET w == SumSeq([i \in 1..Len(signers) |-> Nat2A(Get(s.msig[a].owners, signers[i], 0))])
      IN Nat2A(s.msig[a].threshold) \preceq w

=============================================================================
