------------------------------- MODULE EventsStore -------------------------------
(***************************************************************************)
(* The events store (coreV2/events/store.go) as a sequential machine:       *)
(* events are added to a pending list, a commit writes them under the       *)
(* block height in a compact form in which addresses and validator public   *)
(* keys are replaced by ids of two tables that live in the same database;   *)
(* the tables are cached in memory and re-read from the database by a new   *)
(* process.  The model is implementation-shaped on purpose: id assignment   *)
(* (address ids from 0, key ids from 1, id 0 = "no key"), the persisted     *)
(* counters, the rule "load the tables when the key cache is empty", and    *)
(* the width of the key id (KeyIdSpace = 2^16 in the code).                 *)
(* C24: Load(h) returns exactly what was added for h, whatever came before. *)
(***************************************************************************)
EXTENDS Integers, Sequences, FiniteSets, TLC, Json

CONSTANTS Addrs, Keys,      \* addresses and validator public keys that may appear
          Kinds,            \* event kinds used
          KeyIdSpace,       \* number of values of a key id (65536 in the code)
          MaxEvents, MaxHeight, MaxRestarts

VARIABLES pending,          \* events added since the last commit
          db,               \* [ev: height -> compact events, keyTab: id -> key, keyCount, addrTab: id -> address, addrCount]
          cache,            \* [idKey, idAddr] in-memory copies of the tables
          stored,           \* ghost: height -> events as they were added
          cnt, scn
evars == <<pending, db, cache, stored, cnt, scn>>

NoKey == "-"
\* an event: kind, address (or NoKey), first key, second key (moves)
Refs(k) == CASE k = "reward" -> [a |-> TRUE, p |-> TRUE, q |-> FALSE, opt |-> FALSE]
             [] k = "unbond" -> [a |-> TRUE, p |-> TRUE, q |-> FALSE, opt |-> TRUE]     \* the key may be absent
             [] k = "jail" -> [a |-> FALSE, p |-> TRUE, q |-> FALSE, opt |-> FALSE]
             [] k = "unlock" -> [a |-> TRUE, p |-> FALSE, q |-> FALSE, opt |-> FALSE]
             [] k = "move" -> [a |-> TRUE, p |-> TRUE, q |-> TRUE, opt |-> FALSE]
             [] k = "remove" -> [a |-> FALSE, p |-> TRUE, q |-> FALSE, opt |-> FALSE]
             [] k = "network" -> [a |-> FALSE, p |-> FALSE, q |-> FALSE, opt |-> FALSE]
EventsOf(k) == {[kind |-> k, addr |-> a, key |-> p, key2 |-> q] :
                  a \in (IF Refs(k).a THEN Addrs ELSE {NoKey}),
                  p \in (IF Refs(k).p THEN Keys \cup (IF Refs(k).opt THEN {NoKey} ELSE {}) ELSE {NoKey}),
                  q \in (IF Refs(k).q THEN Keys ELSE {NoKey})}
AllEvents == UNION {EventsOf(k) : k \in Kinds}

Init ==
   /\ pending = <<>>
   /\ db = [ev |-> <<>>, keyTab |-> <<>>, keyCount |-> 0, addrTab |-> <<>>, addrCount |-> 0]
   /\ cache = [idKey |-> <<>>, idAddr |-> <<>>]
   /\ stored = <<>>
   /\ cnt = [events |-> 0, h |-> 0, restarts |-> 0]
   /\ scn = <<>>

Add(e) ==
   /\ cnt.events < MaxEvents
   /\ pending' = Append(pending, e)
   /\ cnt' = [cnt EXCEPT !.events = @ + 1]
   /\ scn' = Append(scn, [op |-> "add", ev |-> e])
   /\ UNCHANGED <<db, cache, stored>>

\* loadCache: the tables are read from the database when the key cache is empty
Loaded(c, d) == IF DOMAIN c.idKey = {}
                THEN [idKey |-> [i \in 1..d.keyCount |-> d.keyTab[i]], idAddr |-> [i \in 0..(d.addrCount - 1) |-> d.addrTab[i]]]
                ELSE c
IdOfAddr(c, a) == CHOOSE i \in DOMAIN c.idAddr : c.idAddr[i] = a
IdOfKey(c, p) == CHOOSE i \in DOMAIN c.idKey : c.idKey[i] = p
Card(f) == Cardinality(DOMAIN f)

\* saveAddress / savePubKey on state [c: cache, d: db]
SaveAddr(s, a) ==
   IF a = NoKey \/ (\E i \in DOMAIN s.c.idAddr : s.c.idAddr[i] = a) THEN s
   ELSE LET id == Card(s.c.idAddr)
        IN [c |-> [s.c EXCEPT !.idAddr = (id :> a) @@ @],
            d |-> [s.d EXCEPT !.addrTab = (id :> a) @@ @, !.addrCount = Card(s.c.idAddr) + 1]]
SaveKey(s, p) ==
   IF p = NoKey \/ (\E i \in DOMAIN s.c.idKey : s.c.idKey[i] = p) THEN s
   ELSE LET id == (Card(s.c.idKey) + 1) % KeyIdSpace                      \* uint16(len) + 1
            c2 == [s.c EXCEPT !.idKey = (id :> p) @@ [i \in DOMAIN @ \ {id} |-> @[i]]]
        IN [c |-> c2,
            d |-> [s.d EXCEPT !.keyTab = (id :> p) @@ [i \in DOMAIN @ \ {id} |-> @[i]], !.keyCount = Card(c2.idKey) % KeyIdSpace]]
SaveRefs(s, e) == SaveKey(SaveKey(SaveAddr(s, e.addr), e.key), e.key2)
RECURSIVE SaveAll(_, _)
SaveAll(s, es) == IF es = <<>> THEN s ELSE SaveAll(SaveRefs(s, Head(es)), Tail(es))
KeyId(c, p) == IF p = NoKey THEN 0 ELSE IdOfKey(c, p)
Compact(c, e) == [kind |-> e.kind, a |-> (IF e.addr = NoKey THEN -1 ELSE IdOfAddr(c, e.addr)), p |-> KeyId(c, e.key), q |-> KeyId(c, e.key2)]

Commit ==
   /\ cnt.h < MaxHeight
   /\ LET h == cnt.h + 1
          s0 == [c |-> Loaded(cache, db), d |-> db]
          s1 == SaveAll(s0, pending)
      IN /\ db' = [s1.d EXCEPT !.ev = (h :> [i \in DOMAIN pending |-> Compact(s1.c, pending[i])]) @@ @]
         /\ cache' = s1.c
         /\ stored' = (h :> pending) @@ stored
         /\ cnt' = [cnt EXCEPT !.h = h]
         /\ scn' = Append(scn, [op |-> "commit", h |-> h])
   /\ pending' = <<>>

\* a new process: empty caches, pending events are lost (they were not committed)
Restart ==
   /\ cnt.restarts < MaxRestarts
   /\ cache' = [idKey |-> <<>>, idAddr |-> <<>>]
   /\ pending' = <<>>
   /\ cnt' = [cnt EXCEPT !.restarts = @ + 1]
   /\ scn' = Append(scn, [op |-> "restart"])
   /\ UNCHANGED <<db, stored>>

Next == (\E e \in AllEvents : Add(e)) \/ Commit \/ Restart
Spec == Init /\ [][Next]_evars

\* what LoadEvents(h) returns in the current state
KeyOf(c, i) == IF i \in DOMAIN c.idKey THEN c.idKey[i] ELSE NoKey
AddrOf(c, i) == IF i \in DOMAIN c.idAddr THEN c.idAddr[i] ELSE NoKey
Expand(c, x) == [kind |-> x.kind, addr |-> (IF x.a = -1 THEN NoKey ELSE AddrOf(c, x.a)), key |-> KeyOf(c, x.p), key2 |-> KeyOf(c, x.q)]
LoadResult(h) == LET c == Loaded(cache, db) IN [i \in DOMAIN db.ev[h] |-> Expand(c, db.ev[h][i])]
\* C24
Faithful == \A h \in DOMAIN stored : LoadResult(h) = stored[h]

View == <<pending, db, cache, stored, cnt>>
Dump == (cnt.h = MaxHeight /\ pending = <<>>) => PrintT("SCN " \o ToJson(scn))
=============================================================================
