---------------------------- MODULE PoolsInd ----------------------------
(***************************************************************************)
(* Unbounded lemmas about the pool arithmetic of Pools.tla, for Apalache    *)
(* (symbolic, SMT): for ANY positive reserves and ANY amounts - not only    *)
(* the small ones TLC enumerates in MCPools - one trade or one liquidity    *)
(* operation                                                                *)
(*   - never shrinks the product of the reserves (trades),                  *)
(*   - never pays out more than the pool holds (reserves stay positive),    *)
(*   - never returns more than the proportional share (removal),            *)
(*   - never mints more than the proportional share (addition).             *)
(* The operators are the integer formulas of Pools.tla written over Int     *)
(* (Apalache needs typed, built-in arithmetic); `IndInit` constrains every  *)
(* variable, `Next` takes one step, the action invariants relate the state  *)
(* before and after it: checked with --length=1 this is a proof for all     *)
(* states, not a bounded exploration.                                       *)
(***************************************************************************)
EXTENDS PoolOps

VARIABLES
    \* @type: Int;
    r0,
    \* @type: Int;
    r1,
    \* @type: Int;
    sup,
    \* @type: Str;
    op,
    \* @type: Int;
    x,
    \* @type: Int;
    y

IndInit == /\ r0 \in Nat /\ r1 \in Nat /\ sup \in Nat /\ r0 > 0 /\ r1 > 0 /\ sup > 0
           /\ op = "init" /\ x = 0 /\ y = 0

\* x = what the trader pays, y = what the trader gets
Sell(in) ==
   LET net == in - Burned(in)
       out == BuyForSell(r0, r1, net)
   IN /\ net > 0 /\ out > 0
      /\ r0' = r0 + net /\ r1' = r1 - out /\ sup' = sup
      /\ op' = "sell" /\ x' = in /\ y' = out
Buy(out) ==
   LET need == SellForBuy(r0, r1, out)
   IN /\ out > 0 /\ out < r1 /\ need > 0
      /\ r0' = r0 + need /\ r1' = r1 - out /\ sup' = sup
      /\ op' = "buy" /\ x' = need + Ceil999(need) /\ y' = out
\* x = pool tokens burned / minted, y = amount of the first coin returned / added
Remove(liq) ==
   /\ liq > 0 /\ liq < sup
   /\ r0' = r0 - ((liq * r0) \div sup) /\ r1' = r1 - ((liq * r1) \div sup) /\ sup' = sup - liq
   /\ op' = "remove" /\ x' = liq /\ y' = (liq * r0) \div sup
Add(a0) ==
   LET liq == (sup * a0) \div r0
       a1 == (a0 * r1) \div r0
   IN /\ a0 > 0 /\ liq > 0
      /\ r0' = r0 + a0 /\ r1' = r1 + a1 /\ sup' = sup + liq
      /\ op' = "add" /\ x' = liq /\ y' = a0

NextSell == \E a \in Nat : Sell(a)
NextBuy == \E a \in Nat : Buy(a)
NextRemove == \E a \in Nat : Remove(a)
NextAdd == \E a \in Nat : Add(a)

\* ---- action invariants (before = unprimed, after = primed)
TradeKeepsProduct == (r0 * r1) <= (r0' * r1') /\ r0' > 0 /\ r1' > 0
\* what the trader pays covers what enters the pool and what is burned
BuyPaysBurn == x' - Burned(x') = r0' - r0
\* a removal returns at most the proportional share and leaves the reserves positive
RemoveAtMostShare == (y' * sup) <= (x' * r0) /\ ((r1 - r1') * sup) <= (x' * r1) /\ r0' > 0 /\ r1' > 0
\* an addition mints at most the proportional share: minted / (supply after) <= added / (reserve after), for both coins
AddAtMostShare == (x' * r0) <= (y' * sup) /\ (x' * r1') <= ((r1' - r1) * sup') + sup'
=========================================================================
