---------------------------- MODULE PoolOpsEq ----------------------------
(* TLC (ASSUME only): the integer copies in PoolOps.tla agree with the operators of Pools.tla on a grid of values. *)
EXTENDS Integers, TLC
P == INSTANCE Pools
O == INSTANCE PoolOps
Rs == {1, 2, 7, 30, 45}
Xs == {1, 2, 5, 29, 44, 999, 1000, 1001, 1998}
ASSUME \A rIn \in Rs, rOut \in Rs, x \in Xs :
          /\ (O!BuyForSell(rIn, rOut, x) > 0 => P!BuyForSell(rIn, rOut, x) = O!BuyForSell(rIn, rOut, x))
          /\ (O!BuyForSell(rIn, rOut, x) <= 0 => P!BuyForSell(rIn, rOut, x) = P!NoTrade)
          /\ (x < rOut => P!SellForBuy(rIn, rOut, x) = O!SellForBuy(rIn, rOut, x))
          /\ P!Burned(x) = O!Burned(x) /\ P!Ceil999(x) = O!Ceil999(x)
ASSUME PrintT("POOLOPS-EQ-OK")
==========================================================================
