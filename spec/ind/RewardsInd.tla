---------------------------- MODULE RewardsInd ----------------------------
(***************************************************************************)
(* Unbounded lemmas about the payout split of Staking.tla (PayOne) and the  *)
(* accrual of EndS, for Apalache: for ANY accumulated reward, commission    *)
(* and stakes of three delegators (two with stakes, one possibly emptied)   *)
(*   - what is paid (DAO, developers, validator, delegators) never exceeds  *)
(*     the accumulated reward, the remainder is not negative,               *)
(*   - a delegator with the larger stake never gets less,                   *)
(*   - the 5% cut of a punishment and what is kept add up to the stake,     *)
(*   - the accrual of present validators never exceeds what is shared.      *)
(***************************************************************************)
EXTENDS Integers

VARIABLES
    \* @type: Int;
    a,
    \* @type: Int;
    comm,
    \* @type: Int;
    b1,
    \* @type: Int;
    b2,
    \* @type: Int;
    b3,
    \* @type: Int;
    paid,
    \* @type: Int;
    p1,
    \* @type: Int;
    p2

IndInit == /\ a \in Nat /\ comm \in 0..100 /\ b1 \in Nat /\ b2 \in Nat /\ b3 \in Nat /\ b1 + b2 + b3 > 0
           /\ paid = 0 /\ p1 = 0 /\ p2 = 0
Tenth(v) == v \div 10
\* the validator's recorded total may exceed the stakes' values (an emptied stake keeps its bip value until the next recalculation): total >= b1+b2+b3
Payout(total) ==
   LET dao == Tenth(a)  dev == Tenth(a)
       t1 == (a - dao) - dev
       cut == (t1 * comm) \div 100
       rest == t1 - cut
       r1 == (rest * b1) \div total
       r2 == (rest * b2) \div total
       r3 == (rest * b3) \div total
   IN /\ total >= b1 + b2 + b3
      /\ paid' = dao + dev + cut + r1 + r2 + r3
      /\ p1' = r1 /\ p2' = r2
      /\ UNCHANGED <<a, comm, b1, b2, b3>>
NextPayout == \E total \in Nat : Payout(total)
NeverOverPaid == paid' <= a /\ paid' >= 0
LargerStakeGetsNoLess == (b1 >= b2) => (p1' >= p2')

\* punishment: v = a, the cut and the kept part
NextCut == /\ paid' = (a - ((a * 95) \div 100)) + ((a * 95) \div 100) /\ p1' = a - ((a * 95) \div 100) /\ p2' = (a * 95) \div 100
           /\ UNCHANGED <<a, comm, b1, b2, b3>>
CutAndKeepAddUp == paid' = a /\ p1' >= 0 /\ p2' >= 0 /\ (a > 0 => p1' > 0) /\ (20 * p1') <= (a + 19)

\* accrual: share a among validators with stakes b1, b2, b3 (present) by stake / total power
NextAccrue == /\ p1' = (a * b1) \div (b1 + b2 + b3) /\ p2' = (a * b2) \div (b1 + b2 + b3)
              /\ paid' = ((a * b1) \div (b1 + b2 + b3)) + ((a * b2) \div (b1 + b2 + b3)) + ((a * b3) \div (b1 + b2 + b3))
              /\ UNCHANGED <<a, comm, b1, b2, b3>>
AccrualWithinShare == paid' <= a /\ a - paid' < 3
===========================================================================
