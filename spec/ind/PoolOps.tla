---------------------------- MODULE PoolOps ----------------------------
(* The pool formulas of Pools.tla over plain integers (raw results: no NoTrade sentinel), shared by the unbounded lemmas   *)
(* (PoolsInd.tla, Apalache) and by PoolOpsEq.tla, in which TLC checks that they agree with Pools.tla on a grid of values.   *)
EXTENDS Integers

Burned(a) == (a + 999) \div 1000
Ceil999(a) == (a + 998) \div 999
BuyForSell(rIn, rOut, in) ==
   LET kAdj == (rIn * rOut) * 1000000
       balAdj == ((in + rIn) * 1000) - (in * 2)
   IN (rOut - (kAdj \div (balAdj * 1000))) - 1
SellForBuy(rIn, rOut, out) ==
   LET kAdj == (rIn * rOut) * 1000000
       balAdj == (rOut - out) * 1000
   IN (((kAdj \div balAdj) - (rIn * 1000)) \div 998) + 1
=========================================================================
