------------------------------- MODULE MCStaking -------------------------------
(***************************************************************************)
(* Model of the staking family: the block lifecycle of Staking.tla         *)
(* (absence marks, switch-off and jail, byzantine evidence, maturity of    *)
(* frozen funds, accrual, payout, recalculation, validator-set update,     *)
(* commit) and the transactions Delegate, Unbond, MoveStake, LockStake,    *)
(* SetCandidateOn/Off over the genesis of world W2 (4 validators with      *)
(* 1000..4000 coins, an offline candidate, a wait list, frozen funds).     *)
(*                                                                         *)
(*  - exhaustive checking (mc/MCStaking_*.cfg): short periods (unbond 3,   *)
(*    move 2, jail 2, window 4, grace 3, stake period 3) so that every     *)
(*    deadline falls inside a behaviour of a few blocks; the property      *)
(*    clauses of PropsStaking/Props are checked as action properties;      *)
(*  - scenario generation (gen/MCStakingGen.cfg): the node's real periods  *)
(*    and a Skip action (n quiet blocks in one step); every behaviour is   *)
(*    printed as a scenario and replayed on the real node in world W2u.    *)
(* Deviations from the node, by name: rewards are not recomputed from the  *)
(* pool price (Rewards.tla does that); an owner with a stake lock is paid   *)
(* the plain share at a payout (the node pays it more: C19 asks for "at     *)
(* least the share" there).                                                *)
(***************************************************************************)
EXTENDS PropsMarkets, Staking

CONSTANTS MaxBlocks, MaxTxPerBlock, MaxTxTotal, MaxEvidence, MaxAbsent,
          Menu,           \* enabled menu entries
          Real            \* TRUE: the node's real periods and the Skip action (generation); FALSE: short periods

VARIABLES phase, scn, cnt
mvars == <<st, disk, ev, hist, phase, scn, cnt>>

Chain == 2
H0 == IF Real THEN 10197399 ELSE 11
WorldCfg == IF Real
            THEN [world |-> "W2u", stakePeriod |-> 6, expirePeriod |-> 5, initial |-> H0 + 1, unbond |-> 531, move |-> 177, jail |-> 354, chain |-> Chain, family |-> "staking"]
            ELSE [world |-> "W2u", stakePeriod |-> 3, expirePeriod |-> 5, initial |-> H0 + 1, unbond |-> 3, move |-> 2, jail |-> 2, chain |-> Chain, family |-> "staking",
                  lock |-> 4, window |-> 4, grace |-> 3, minStake |-> 1000, lockFrom |-> H0 + 1]
Cap == 1000000000
PriceFields == {"PayloadByte", "Send", "BuyBancor", "SellBancor", "SellAllBancor", "BuyPoolBase", "BuyPoolDelta", "SellPoolBase",
   "SellPoolDelta", "SellAllPoolBase", "SellAllPoolDelta", "CreateTicker3", "CreateTicker4", "CreateTicker5", "CreateTicker6",
   "CreateTicker7to10", "CreateCoin", "CreateToken", "RecreateCoin", "RecreateToken", "DeclareCandidacy", "Delegate", "Unbond",
   "RedeemCheck", "SetCandidateOn", "SetCandidateOff", "CreateMultisig", "MultisendBase", "MultisendDelta", "EditCandidate",
   "SetHaltBlock", "EditTickerOwner", "EditMultisig", "EditCandidatePublicKey", "CreateSwapPool", "AddLiquidity", "RemoveLiquidity",
   "EditCandidateCommission", "MintToken", "BurnToken", "VoteCommission", "VoteUpdate", "FailedTx", "AddLimitOrder",
   "RemoveLimitOrder", "MoveStake", "LockStake", "Lock"}

Cand(id, owner, control, status, comm, stake) ==
   [id |-> id, owner |-> owner, control |-> control, reward |-> owner, status |-> status, jailedUntil |-> 0, comm |-> comm, lastEdit |-> 0,
    total |-> stake, stakes |-> <<[o |-> owner, c |-> Base, v |-> stake, bv |-> stake]>>, upd |-> <<>>]
Val(p, stake) == [p |-> p, stake |-> stake, accum |-> 0, absent |-> 0, bits |-> ZeroBits(WorldCfg), toDrop |-> FALSE]
Genesis ==
   [h |-> H0,
    bal |-> [a1 |-> (Base :> 100000), a2 |-> (Base :> 100000), a3 |-> (Base :> 100000), a4 |-> (Base :> 100000), a5 |-> (Base :> 100000), a6 |-> (Base :> 100000),
             o1 |-> (Base :> 10000), o2 |-> (Base :> 10000), o3 |-> (Base :> 10000), o4 |-> (Base :> 10000)],
    nonce |-> <<>>, lockUntil |-> <<>>, msig |-> <<>>, coins |-> <<>>, nextCoin |-> 1,
    cands |-> [v1 |-> Cand(1, "o1", "o1", 2, 10, 1000), v2 |-> Cand(2, "o2", "a6", 2, 20, 2000), v3 |-> Cand(3, "o3", "o3", 2, 30, 3000),
               v4 |-> Cand(4, "o4", "o4", 2, 40, 4000), c5 |-> Cand(5, "a5", "a5", 1, 5, 1500)],
    wait |-> <<[o |-> "a1", id |-> 1, c |-> Base, v |-> 70], [o |-> "a2", id |-> 3, c |-> Base, v |-> 15]>>,
    frozen |-> <<[due |-> H0 + 3, o |-> "a3", id |-> 2, key |-> "v2", c |-> Base, v |-> 25, to |-> 0],
                 [due |-> H0 + 2, o |-> "a3", id |-> 4, key |-> "v4", c |-> Base, v |-> 5, to |-> 1]>>,
    pools |-> <<>>, orders |-> <<>>, nextOrder |-> 1, checksUsed |-> <<>>,
    haltVotes |-> <<>>, commVotes |-> <<>>, updVotes |-> <<>>,
    price |-> [f \in PriceFields |-> 1], priceCoin |-> Base,
    vals |-> <<Val("v1", 1000), Val("v2", 2000), Val("v3", 3000), Val("v4", 4000)>>,
    rewardPool |-> 0, slashed |-> 0, emission |-> 1000000, reward |-> 100, safeReward |-> 100,
    priceRec |-> [t |-> 0, r0 |-> 0, r1 |-> 0, last |-> 0, off |-> FALSE], maxGas |-> 100000,
    versions |-> <<>>, deleted |-> <<>>, blocked |-> <<>>]

Ev(kind, h) == [sc |-> "mc", i |-> 0, kind |-> kind, h |-> h, check |-> -1, resp |-> [code |-> 0, gas |-> 0, tags |-> <<>>, log |-> ""], hash |-> "", panic |-> ""]

Init ==
   /\ st = Genesis
   /\ disk = Genesis
   /\ ev = Ev("Init", H0)
   /\ hist = [accepted |-> {}, seen |-> <<>>, cValid |-> TRUE, cBase |-> BaseTotal(Genesis), cEmission |-> Genesis.emission,
              cfg |-> WorldCfg, unit |-> 1, sc |-> "mc", present |-> {}, cap |-> Cap]
   /\ phase = "idle"
   /\ scn = <<>>
   /\ cnt = [blocks |-> 0, inBlock |-> 0, total |-> 0, evidence |-> 0, absent |-> 0, skips |-> 0]

\* ---------------------------------------------------------------- block lifecycle
ValSet == {st.vals[i].p : i \in DOMAIN st.vals}
AbsentChoices == IF "Absent" \in Menu /\ cnt.absent < MaxAbsent THEN {{}, {"v1"}} \cup (IF "Absent2" \in Menu THEN {{"v1", "v3"}} ELSE {}) ELSE {{}}
EvidenceChoices == IF "Evidence" \in Menu /\ cnt.evidence < MaxEvidence
                   THEN {<<>>, <<"v4">>, <<"v4", "v4">>, <<"c5">>} \cup (IF Real THEN {} ELSE {<<"v4", "v1">>, <<"nobody">>}) ELSE {<<>>}
\* a block begins -- unless the validators present voted, with more than two thirds of their power, to halt at this height:
\* then the node stops (the harness records a step of kind "Halt" instead of the BeginBlock)
Begin ==
   /\ phase = "idle" /\ cnt.blocks < MaxBlocks
   /\ \E ab \in AbsentChoices, evd \in EvidenceChoices :
        LET h == st.h + 1
            absent == ab \cap ValSet
            present == ValSet \ absent
            halted == HaltedAt(st, h, present)
            beg == [time |-> 0, hour |-> 0, absent |-> SetToSeq(absent), evidence |-> evd, present |-> SetToSeq(present)]
        IN /\ st' = IF halted THEN st ELSE BeginS(st, h, absent, evd, WorldCfg)
           /\ ev' = Ev(IF halted THEN "Halt" ELSE "BeginBlock", h) @@ [begin |-> beg]
           /\ hist' = [hist EXCEPT !.present = present]
           /\ scn' = Append(scn, [op |-> "begin", absent |-> SetToSeq(absent), evidence |-> evd])
           /\ cnt' = [cnt EXCEPT !.inBlock = 0, !.evidence = IF evd = <<>> THEN @ ELSE @ + 1, !.absent = IF absent = {} THEN @ ELSE @ + 1,
                                 !.blocks = IF halted THEN MaxBlocks ELSE @]
           /\ phase' = IF halted THEN "idle" ELSE "begun"
   /\ UNCHANGED disk

\* a candidate got a new key since the last commit
KeyChangedInBlock == \E p \in DOMAIN st.cands : \E q \in DOMAIN disk.cands : disk.cands[q].id = st.cands[p].id /\ q # p
\* what the node tells the consensus engine after an update of the validator set
UpdatesOf(s0, s1) == <<>>      \* powers are 64-bit products in the node: left to the trace checks (C17_Power)
End ==
   /\ phase = "begun"
   /\ st' = EndS(st, st.h, hist.present, WorldCfg, 1, Cap, KeyChangedInBlock, <<>>)
   /\ ev' = Ev("EndBlock", st.h) @@ [end |-> [updates |-> UpdatesOf(st, st')]]
   /\ phase' = "ended"
   /\ scn' = Append(scn, [op |-> "end"])
   /\ UNCHANGED <<disk, hist, cnt>>

Commit ==
   /\ phase = "ended"
   /\ st' = CommitS(st)
   /\ disk' = CommitS(st)
   /\ ev' = Ev("Commit", st.h)
   /\ hist' = [hist EXCEPT !.cValid = TRUE, !.cBase = BaseTotal(CommitS(st)), !.cEmission = st.emission]
   /\ phase' = "idle"
   /\ scn' = Append(scn, [op |-> "commit"])
   /\ cnt' = [cnt EXCEPT !.blocks = @ + 1]

\* n quiet blocks (generation only): the scenario tells the node to run n empty blocks; the model does not compute them -- what is
\* generated is the input sequence, and no transaction of the menu is enabled or disabled by the state
SkipLengths == {176, 177, 530, 531}
Skip ==
   /\ Real /\ "Skip" \in Menu /\ phase = "idle" /\ cnt.blocks < MaxBlocks /\ cnt.blocks > 0 /\ cnt.skips = 0
   /\ \E n \in SkipLengths :
        /\ st' = [st EXCEPT !.h = @ + n]
        /\ disk' = [st EXCEPT !.h = @ + n]
        /\ ev' = Ev("Skip", st.h + n)
        /\ scn' = Append(scn, [op |-> "skip", n |-> n, quiet |-> TRUE])
   /\ cnt' = [cnt EXCEPT !.blocks = @ + 1, !.skips = @ + 1]
   /\ UNCHANGED <<hist, phase>>

\* ---------------------------------------------------------------- transaction menu
NextId == "t" \o ToString(cnt.total + 1)
MkTx(type, from, args) ==
   [id |-> NextId, type |-> type, sender |-> from, from |-> from, signedBy |-> <<from>>, intact |-> TRUE, multi |-> FALSE,
    nonce |-> NonceOf(st, from) + 1, pol |-> "next", chain |-> Chain, gasCoin |-> Base, gasPrice |-> 1, bytes |-> 0,
    args |-> args, mut |-> "", dupOf |-> "", hash |-> NextId, len |-> 100]
Dlg(a, p, v) == MkTx("Delegate", a, [pub |-> p, coin |-> Base, value |-> v])
Unb(a, p, v) == MkTx("Unbond", a, [pub |-> p, coin |-> Base, value |-> v])
Mov(a, p, q, v) == MkTx("MoveStake", a, [from |-> p, to |-> q, coin |-> Base, value |-> v])
\* the second set of each kind is left out when scenarios are generated for the real node (fewer near-duplicates)
DelegateTxs == {Dlg("a2", "v1", 100), Dlg("a1", "v1", 0), Dlg("a1", "v1", 30), Dlg("a2", "c5", 500), Dlg("a2", "v2", 100), Dlg("a4", "v1", 2000)}
               \cup (IF Real THEN {} ELSE {Dlg("a2", "nobody", 5), Dlg("a2", "v1", 0), Dlg("o1", "v1", 10000)})
UnbondTxs == {Unb("o1", "v1", 100), Unb("o1", "v1", 1000), Unb("a1", "v1", 50), Unb("a1", "v1", 100), Unb("a2", "v3", 0), Unb("a4", "v2", 0), Unb("o4", "v4", 4001), Unb("o1", "v1", 0)}
             \cup (IF Real THEN {} ELSE {Unb("a1", "v1", 70), Unb("a4", "v2", 1), Unb("o4", "v4", 4000), Unb("o1", "nobody", 1)})
MoveTxs == {Mov("o1", "v1", "c5", 100), Mov("o1", "v1", "nobody", 1), Mov("a1", "v1", "c5", 70), Mov("o4", "v4", "v1", 4000), Mov("a4", "v2", "v1", 0), Mov("o2", "v2", "v1", 2001)}
           \cup (IF Real THEN {} ELSE {Mov("o1", "v1", "v1", 1), Mov("a1", "v1", "c5", 20)})
LockTxs == {MkTx("LockStake", "o1", <<>>)}
SwitchTxs == {MkTx("SetCandidateOff", "a6", [pub |-> "v2"]), MkTx("SetCandidateOff", "a1", [pub |-> "v2"]),
              MkTx("SetCandidateOn", "a5", [pub |-> "c5"]), MkTx("SetCandidateOn", "o1", [pub |-> "v1"])}
             \cup (IF Real THEN {} ELSE {MkTx("SetCandidateOff", "o2", [pub |-> "v2"]), MkTx("SetCandidateOn", "o1", [pub |-> "nobody"])})
PunishTxs == {Unb("o4", "v4", 100), MkTx("SetCandidateOn", "o1", [pub |-> "v1"]), Dlg("a2", "v1", 100), Mov("o4", "v4", "v1", 50)}
\* governance: votes of the four validators' owners for a halt / a version at the third block (stakes 1000..4000: v2+v4 of v2,v3,v4 is exactly 2/3)
VoteHeight == H0 + 3
Owner(i) == "o" \o ToString(i)
Key(i) == "v" \o ToString(i)
HaltTxs == {MkTx("SetHaltBlock", Owner(i), [pub |-> Key(i), height |-> VoteHeight]) : i \in 1..4}
           \cup {MkTx("SetHaltBlock", "o1", [pub |-> "v1", height |-> H0]), MkTx("SetHaltBlock", "a1", [pub |-> "v2", height |-> VoteHeight])}
UpdateTxs == {MkTx("VoteUpdate", Owner(i), [pub |-> Key(i), height |-> VoteHeight, version |-> ver]) : i \in 2..4, ver \in {"v330"}}
             \cup {MkTx("VoteUpdate", "o3", [pub |-> "v3", height |-> VoteHeight, version |-> "v320"]), MkTx("VoteUpdate", "o1", [pub |-> "v1", height |-> VoteHeight, version |-> "v320"])}
\* candidates: declared by a user (owner = the declared address, reward and control = the sender), edited by owner / control / stranger
CandTxs == {MkTx("DeclareCandidacy", "a1", [address |-> "a1", pub |-> "n1", comm |-> 10, coin |-> Base, stake |-> 5000]),
            MkTx("DeclareCandidacy", "a2", [address |-> "a3", pub |-> "n1", comm |-> 101, coin |-> Base, stake |-> 10]),
            MkTx("DeclareCandidacy", "a2", [address |-> "a3", pub |-> "n2", comm |-> 100, coin |-> Base, stake |-> 10]),
            MkTx("DeclareCandidacy", "a2", [address |-> "a2", pub |-> "v1", comm |-> 10, coin |-> Base, stake |-> 10]),
            MkTx("EditCandidate", "o2", [pub |-> "v2", reward |-> "a4", owner |-> "a4", control |-> "o2"]),
            MkTx("EditCandidate", "a6", [pub |-> "v2", reward |-> "a6", owner |-> "a6", control |-> "a6"]),
            MkTx("EditCandidate", "a1", [pub |-> "v2", reward |-> "a1", owner |-> "a1", control |-> "a1"]),
            MkTx("EditCandidate", "a4", [pub |-> "v2", reward |-> "a4", owner |-> "o2", control |-> "a4"]),
            MkTx("EditCandidateCommission", "o2", [pub |-> "v2", comm |-> 30]),
            MkTx("EditCandidateCommission", "o2", [pub |-> "v2", comm |-> 31]),
            MkTx("EditCandidateCommission", "a6", [pub |-> "v2", comm |-> 25]),
            MkTx("EditCandidateCommission", "a5", [pub |-> "c5", comm |-> 0]),
            MkTx("SetCandidateOn", "a1", [pub |-> "n1"]), MkTx("SetCandidateOff", "a4", [pub |-> "v2"]),
            MkTx("EditCandidatePublicKey", "o2", [pub |-> "v2", newPub |-> "k2"]), MkTx("EditCandidatePublicKey", "o2", [pub |-> "v2", newPub |-> "v1"]),
            MkTx("EditCandidatePublicKey", "a1", [pub |-> "v2", newPub |-> "kx"]), MkTx("EditCandidatePublicKey", "o1", [pub |-> "v1", newPub |-> "v2"]),
            MkTx("EditCandidatePublicKey", "o2", [pub |-> "k2", newPub |-> "k3"])}
TxMenu == (IF "Halt" \in Menu THEN HaltTxs ELSE {}) \cup (IF "Candidates" \in Menu THEN CandTxs ELSE {}) \cup (IF "Update" \in Menu THEN UpdateTxs ELSE {})
     \cup (IF "Delegate" \in Menu THEN DelegateTxs ELSE {})
     \cup (IF "Unbond" \in Menu THEN UnbondTxs ELSE {})
     \cup (IF "Move" \in Menu THEN MoveTxs ELSE {})
     \cup (IF "LockStake" \in Menu THEN LockTxs ELSE {})
     \cup (IF "Switch" \in Menu THEN SwitchTxs ELSE {})
     \cup (IF "Punish" \in Menu THEN PunishTxs ELSE {})

TxStep(tx) == [op |-> "tx", id |-> tx.id, type |-> tx.type, from |-> tx.from, sign |-> tx.signedBy, multi |-> FALSE,
               nonce |-> "next", args |-> tx.args, mut |-> "", repeat |-> ""]
Deliver(tx) ==
   /\ phase = "begun" /\ cnt.inBlock < MaxTxPerBlock /\ cnt.total < MaxTxTotal
   /\ LET r == RunTxS(st, tx, st.h, WorldCfg)
      IN /\ st' = r.st
         /\ ev' = [Ev("DeliverTx", st.h) EXCEPT !.resp = [code |-> r.code, gas |-> 0, tags |-> r.tags, log |-> ""], !.check = r.code] @@ [tx |-> tx]
         /\ hist' = [hist EXCEPT !.accepted = IF r.code = 0 THEN @ \cup {tx.hash} ELSE @,
                                  !.seen = IF tx.hash \in DOMAIN @ THEN @ ELSE @ @@ (tx.hash :> r.code)]
   /\ scn' = Append(scn, TxStep(tx))
   /\ cnt' = [cnt EXCEPT !.inBlock = @ + 1, !.total = @ + 1]
   /\ UNCHANGED <<disk, phase>>

Next == Begin \/ End \/ Commit \/ Skip \/ (\E tx \in TxMenu : Deliver(tx))
Spec == Init /\ [][Next]_mvars

\* ---------------------------------------------------------------- what TLC checks
View == <<st, disk, ev, hist, phase, cnt>>
P_C01 == [][C01_Step]_mvars
P_C02 == [][C02_Step]_mvars
P_C03 == [][C03_Step]_mvars
P_C05 == [][C05_Step /\ C05_StakingStep]_mvars
P_C16 == [][C16_Step]_mvars
P_C17 == [][C17_Set /\ C17_Totals]_mvars
P_C18 == [][C18_Step]_mvars
P_C19 == [][C19_Step /\ C19_PayoutStep]_mvars
P_C27 == [][C27_Step]_mvars
P_C20 == [][C20_Step]_mvars
TypeOK == /\ phase \in {"idle", "begun", "ended"}
          /\ C02_State(st)
\* every exit from staking that the model produces is on schedule: a frozen fund never outlives its due block
NoOverdue == \A f \in Range(st.frozen) : f.due > st.h

\* ---------------------------------------------------------------- vacuity guard: what the exploration must have reached
\* (ACTION_CONSTRAINT ReachStep: always true; prints `REACH <name>` the first time a worker takes a step of that kind)
ReachReg == 9
ASSUME TLCSet(ReachReg, {})
Mark(name, cond) == IF cond /\ name \notin TLCGet(ReachReg) THEN PrintT("REACH " \o name) /\ TLCSet(ReachReg, TLCGet(ReachReg) \cup {name}) ELSE TRUE
OkTx(t) == Delivered /\ Code = 0 /\ Tx.type = t
Rej(c) == Delivered /\ Code = c
SenderWaits(p) == HasWait(st, Tx.sender, CandIdOf(st, p), Base)
ReachStep ==
   /\ Mark("DelegateOk", OkTx("Delegate"))
   /\ Mark("DelegateFromWaitList", OkTx("Delegate") /\ SenderWaits(Arg("pub")))
   /\ Mark("DelegateTooBig", Rej(TooBigStake))
   /\ Mark("DelegateNoCandidate", Rej(CandidateNotFound))
   /\ Mark("StakeNotPositive", Rej(StakeShouldBePositive))
   /\ Mark("UnbondOk", OkTx("Unbond"))
   /\ Mark("UnbondFromWaitList", OkTx("Unbond") /\ SenderWaits(Arg("pub")))
   /\ Mark("UnbondWholeStake", OkTx("Unbond") /\ HasStake(st, Arg("pub"), Tx.sender, Base) /\ StakeVal(st', Arg("pub"), Tx.sender, Base) = Zero)
   /\ Mark("StakeNotFound", Rej(StakeNotFound))
   /\ Mark("InsufficientStake", Rej(InsufficientStake))
   /\ Mark("InsufficientWaitList", Rej(InsufficientWaitList))
   /\ Mark("MoveOk", OkTx("MoveStake"))
   /\ Mark("MoveFromWaitList", OkTx("MoveStake") /\ SenderWaits(Arg("from")))
   /\ Mark("MoveEqualKeys", Rej(EqualPubKey))
   /\ Mark("LockStakeOk", OkTx("LockStake"))
   /\ Mark("LockStakeNotYet", Rej(Unavailable))
   /\ Mark("UnbondBlocked", Rej(UnbondBlocked))
   /\ Mark("SwitchOffByControl", OkTx("SetCandidateOff") /\ Tx.sender # st.cands[Arg("pub")].owner)
   /\ Mark("SwitchByStranger", Rej(IsNotOwnerOfCandidate))
   /\ Mark("SwitchOnOk", OkTx("SetCandidateOn"))
   /\ Mark("SwitchOnJailed", Rej(CandidateJailed))
   /\ Mark("SwitchOnAfterJail", OkTx("SetCandidateOn") /\ st.cands[Arg("pub")].jailedUntil > 0)
   /\ Mark("FundsMature", IsKind("BeginBlock") /\ DueNow # <<>>)
   /\ Mark("UnbondedFundsReturn", IsKind("BeginBlock") /\ \E f \in Range(DueNow) : f.to = 0 /\ f.due = f.due /\ f.o \in {"o1", "o4", "a1"})
   /\ Mark("MoveArrives", IsKind("BeginBlock") /\ \E f \in Range(DueNow) : f.to # 0 /\ f.o # "a3")
   /\ Mark("Payout", IsKind("EndBlock") /\ IsPayout /\ PaidVals # {})
   /\ Mark("UpdateBetweenPayouts", IsKind("EndBlock") /\ ~IsPayout /\ \E v \in Range(st.vals) : v.toDrop)
   /\ Mark("ValidatorLeaves", IsKind("EndBlock") /\ ValNames(st') # ValNames(st))
   /\ Mark("ValidatorLeavesWithAccum", IsKind("EndBlock") /\ \E v \in Range(st.vals) : v.p \notin ValNames(st') /\ ~v.toDrop /\ Zero \prec v.accum)
   /\ Mark("ValidatorJoins", IsKind("EndBlock") /\ ValNames(st') \ ValNames(st) # {})
   /\ Mark("UpdatesMerged", IsKind("EndBlock") /\ \E p \in DOMAIN st.cands : st.cands[p].upd # <<>> /\ st'.cands[p].upd = <<>>)
   /\ Mark("EmptiedStakeGone", IsKind("Commit") /\ st' # st)
   /\ Mark("TooAbsent", IsKind("BeginBlock") /\ \E p \in ValNames(st) : TooAbsent(p))
   /\ Mark("JailedForAbsence", IsKind("BeginBlock") /\ \E p \in ValNames(st) : TooAbsent(p) /\ ~Grace(H))
   /\ Mark("SwitchedOffInGrace", IsKind("BeginBlock") /\ \E p \in ValNames(st) : TooAbsent(p) /\ Grace(H))
   /\ Mark("Evidence", IsKind("BeginBlock") /\ EvSet # {})
   /\ Mark("EvidenceTwice", IsKind("BeginBlock") /\ EvSet # {} /\ Len(ev'.begin.evidence) = 2)
   /\ Mark("EvidenceWithUnbondingFunds", IsKind("BeginBlock") /\ \E f \in Range(st.frozen) : f.key \in EvSet /\ f.due > H)
   /\ Mark("EvidenceWithFundsDueNow", IsKind("BeginBlock") /\ \E f \in Range(st.frozen) : f.key \in EvSet /\ f.due = H)
   /\ Mark("EvidenceAgainstOffline", IsKind("BeginBlock") /\ ~NoEvidence /\ EvSet = {})
   /\ Mark("DeclareOk", OkTx("DeclareCandidacy"))
   /\ Mark("DeclareExisting", Rej(CandidateExists))
   /\ Mark("DeclareWrongCommission", Delivered /\ Tx.type = "DeclareCandidacy" /\ Code = WrongCommission)
   /\ Mark("EditCandidateOk", OkTx("EditCandidate"))
   /\ Mark("EditByNewOwner", OkTx("EditCandidate") /\ Tx.sender = "a4")
   /\ Mark("EditByStranger", Delivered /\ Tx.type = "EditCandidate" /\ Code = IsNotOwnerOfCandidate)
   /\ Mark("CommissionOk", OkTx("EditCandidateCommission"))
   /\ Mark("CommissionTooFar", Delivered /\ Tx.type = "EditCandidateCommission" /\ Code = WrongCommission)
   /\ Mark("CommissionTooSoon", Rej(PeriodLimitReached))
   /\ Mark("CommissionByControl", Delivered /\ Tx.type = "EditCandidateCommission" /\ Code = IsNotOwnerOfCandidate)
   /\ Mark("KeyChanged", OkTx("EditCandidatePublicKey"))
   /\ Mark("KeyChangedTwice", OkTx("EditCandidatePublicKey") /\ Arg("pub") = "k2")
   /\ Mark("KeyTaken", Delivered /\ Tx.type = "EditCandidatePublicKey" /\ Code = CandidateExists)
   /\ Mark("KeyBlocked", Rej(PublicKeyInBlockList))
   /\ Mark("KeyChangeByStranger", Delivered /\ Tx.type = "EditCandidatePublicKey" /\ Code = IsNotOwnerOfCandidate)
   /\ Mark("ValidatorFollowsKey", IsKind("EndBlock") /\ "k2" \in ValNames(st) /\ "k2" \in ValNames(st'))
   /\ Mark("NewCandidateIsValidator", IsKind("EndBlock") /\ "n1" \in ValNames(st'))
   /\ Mark("VoteOk", OkTx("SetHaltBlock") \/ OkTx("VoteUpdate"))
   /\ Mark("VoteExpired", Rej(VoteExpired))
   /\ Mark("VoteTwice", Rej(VoteAlreadyExists) \/ Rej(HaltAlreadyExists))
   /\ Mark("VoteByStranger", Delivered /\ Tx.type \in {"SetHaltBlock", "VoteUpdate"} /\ Code = IsNotOwnerOfCandidate)
   /\ Mark("Halted", IsKind("Halt"))
   /\ Mark("HaltVotesNotEnough", IsKind("BeginBlock") /\ VotesAt(st.haltVotes, H) # <<>>)
   /\ Mark("HaltExactlyTwoThirds", IsKind("BeginBlock") /\ \E v \in Range(VotesAt(st.haltVotes, H)) :
                Nat2A(2) ** TotalPowerOf(st, Range(ev'.begin.present)) = Nat2A(3) ** VotedPower(st, Range(ev'.begin.present), v.votes))
   /\ Mark("UpdateApplied", IsKind("EndBlock") /\ Len(st'.versions) > Len(st.versions))
   /\ Mark("UpdateVotesNotEnough", IsKind("EndBlock") /\ VotesAt(st.updVotes, H) # <<>> /\ st'.versions = st.versions)
   /\ Mark("UpdateCompeting", IsKind("EndBlock") /\ Len(VotesAt(st.updVotes, H)) > 1 /\ Len(st'.versions) > Len(st.versions))
   /\ Mark("VotesForgotten", IsKind("Commit") /\ (st'.updVotes # st.updVotes \/ st'.haltVotes # st.haltVotes))
   /\ Mark("EvidenceAndAbsenceTogether", IsKind("BeginBlock") /\ \E p \in Range(ev'.begin.evidence) : Punishable(p) /\ TooAbsent(p))

Dump == (phase = "idle" /\ cnt.blocks = MaxBlocks) => PrintT("SCN " \o ToJson(scn))
=============================================================================
