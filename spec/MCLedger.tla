------------------------------- MODULE MCLedger -------------------------------
(***************************************************************************)
(* Model of the ledger family: block lifecycle + Send, Multisend,          *)
(* CreateMultisig, EditMultisig, Lock, RedeemCheck, failed transactions,   *)
(* re-delivery of earlier bytes and post-signature mutation.               *)
(*                                                                         *)
(* Used in two ways:                                                       *)
(*  - exhaustive model checking of the property formulas of Props.tla in   *)
(*    a small scope (MCLedger.cfg, VIEW hides the scenario being built);   *)
(*  - scenario generation for the real node (MCLedgerGen.cfg): every       *)
(*    behaviour prefix that ends at a block boundary is printed as a       *)
(*    scenario (`SCN` lines) and replayed by harness/cmd/driver.           *)
(* Amounts are small native integers (one unit each); the real-node world  *)
(* W1u uses the same price table scaled by 10^18.                          *)
(***************************************************************************)
EXTENDS PropsMarkets, Coins

CONSTANTS MaxBlocks,      \* blocks per behaviour
          MaxTxPerBlock,
          MaxTxTotal,
          Menu            \* set of menu entry names enabled in this configuration

VARIABLES phase,          \* "idle" | "begun" | "ended"
          scn,            \* the scenario built so far (sequence of abstract steps)
          sent,           \* transactions delivered so far (for Redeliver)
          cnt             \* [blocks, txInBlock, txTotal]
mvars == <<st, disk, ev, hist, phase, scn, sent, cnt>>

Chain == 2
Users == {"a1", "a2", "a3"}
PriceFields == {"PayloadByte", "Send", "BuyBancor", "SellBancor", "SellAllBancor", "BuyPoolBase", "BuyPoolDelta", "SellPoolBase",
   "SellPoolDelta", "SellAllPoolBase", "SellAllPoolDelta", "CreateTicker3", "CreateTicker4", "CreateTicker5", "CreateTicker6",
   "CreateTicker7to10", "CreateCoin", "CreateToken", "RecreateCoin", "RecreateToken", "DeclareCandidacy", "Delegate", "Unbond",
   "RedeemCheck", "SetCandidateOn", "SetCandidateOff", "CreateMultisig", "MultisendBase", "MultisendDelta", "EditCandidate",
   "SetHaltBlock", "EditTickerOwner", "EditMultisig", "EditCandidatePublicKey", "CreateSwapPool", "AddLiquidity", "RemoveLiquidity",
   "EditCandidateCommission", "MintToken", "BurnToken", "VoteCommission", "VoteUpdate", "FailedTx", "AddLimitOrder",
   "RemoveLimitOrder", "MoveStake", "LockStake", "Lock"}

H0 == 100     \* last committed height at genesis (world W1u: initial height 101)

Genesis ==
   [h |-> H0,
    bal |-> [a1 |-> ("0" :> 3), a2 |-> ("0" :> 3), a3 |-> ("0" :> 1), o1 |-> ("0" :> 30000)],
    nonce |-> <<>>, lockUntil |-> <<>>, msig |-> <<>>, coins |-> <<>>, nextCoin |-> 1,
    cands |-> [v1 |-> [id |-> 1, owner |-> "o1", control |-> "o1", reward |-> "o1", status |-> 2, jailedUntil |-> 0, comm |-> 10,
                       lastEdit |-> 0, total |-> 1000, stakes |-> <<[o |-> "o1", c |-> "0", v |-> 1000, bv |-> 1000]>>, upd |-> <<>>]],
    wait |-> <<>>, frozen |-> <<>>, pools |-> <<>>, orders |-> <<>>, nextOrder |-> 1, checksUsed |-> <<>>,
    haltVotes |-> <<>>, commVotes |-> <<>>, updVotes |-> <<>>,
    price |-> [f \in PriceFields |-> 1], priceCoin |-> "0",
    vals |-> <<[p |-> "v1", stake |-> 1000, accum |-> 0, absent |-> 0, bits |-> <<>>, toDrop |-> FALSE]>>,
    rewardPool |-> 0, slashed |-> 0, emission |-> 1000, reward |-> 1, safeReward |-> 1,
    priceRec |-> [t |-> 0, r0 |-> 0, r1 |-> 0, last |-> 0, off |-> FALSE], maxGas |-> 100000,
    versions |-> <<>>, deleted |-> <<>>, blocked |-> <<>>]

Ev(kind, h) == [sc |-> "mc", i |-> 0, kind |-> kind, h |-> h, check |-> -1, resp |-> [code |-> 0, gas |-> 0, tags |-> <<>>, log |-> ""], hash |-> "", panic |-> ""]
GenesisCfg == [world |-> "W1u", stakePeriod |-> 1000, expirePeriod |-> 1000, initial |-> H0 + 1, unbond |-> 531, move |-> 177, jail |-> 354, chain |-> Chain, family |-> "ledger"]

Init ==
   /\ st = Genesis
   /\ disk = Genesis
   /\ ev = Ev("Init", H0)
   /\ hist = [accepted |-> {}, seen |-> <<>>, cValid |-> TRUE, cBase |-> BaseTotal(Genesis), cEmission |-> Genesis.emission,
              cfg |-> GenesisCfg, unit |-> 1, sc |-> "mc"]
   /\ phase = "idle"
   /\ scn = <<>>
   /\ sent = <<>>
   /\ cnt = [blocks |-> 0, inBlock |-> 0, total |-> 0]

\* ---------------------------------------------------------------- block lifecycle (ledger view)
\* frozen funds that are due at h return to their owner's balance (plain locks only in this family)
RECURSIVE CreditAll(_, _)
CreditAll(s, items) == IF items = <<>> THEN s ELSE CreditAll(AddBal(s, Head(items).o, Head(items).c, Head(items).v), Tail(items))
Mature(s, h) == [CreditAll(s, SelectSeq(s.frozen, LAMBDA f : f.due = h /\ f.to = 0))
                    EXCEPT !.frozen = SelectSeq(s.frozen, LAMBDA f : f.due # h)]

Begin ==
   /\ phase = "idle" /\ cnt.blocks < MaxBlocks
   /\ st' = [Mature(st, st.h + 1) EXCEPT !.h = st.h + 1, !.rewardPool = Zero]
   /\ ev' = Ev("BeginBlock", st.h + 1) @@ [begin |-> [time |-> 0, hour |-> 0, absent |-> <<>>, evidence |-> <<>>, present |-> <<"v1">>]]
   /\ phase' = "begun"
   /\ scn' = Append(scn, [op |-> "begin"])
   /\ cnt' = [cnt EXCEPT !.inBlock = 0]
   /\ UNCHANGED <<disk, hist, sent>>

\* one validator, always present: it accrues the whole reward and the fees; emission grows by the block reward
End ==
   /\ phase = "begun"
   /\ LET gain == st.reward ++ st.rewardPool
          burn == st.safeReward -- st.reward
          s1 == [st EXCEPT !.vals = <<[@[1] EXCEPT !.accum = @ ++ gain]>>, !.emission = @ ++ st.safeReward]
      IN st' = IF Zero \prec burn THEN AddBal(s1, "zero", Base, burn) ELSE s1
   /\ ev' = Ev("EndBlock", st.h)
   /\ phase' = "ended"
   /\ scn' = Append(scn, [op |-> "end"])
   /\ UNCHANGED <<disk, hist, sent, cnt>>

Commit ==
   /\ phase = "ended"
   /\ st' = st
   /\ disk' = st
   /\ ev' = Ev("Commit", st.h)
   /\ hist' = [hist EXCEPT !.cValid = TRUE, !.cBase = BaseTotal(st), !.cEmission = st.emission]
   /\ phase' = "idle"
   /\ scn' = Append(scn, [op |-> "commit"])
   /\ cnt' = [cnt EXCEPT !.blocks = @ + 1]
   /\ UNCHANGED <<sent>>

\* ---------------------------------------------------------------- transaction menu
NextId == "t" \o ToString(cnt.total + 1)
NonceFor(a, pol) == CASE pol = "next" -> NonceOf(st, a) + 1 [] pol = "stale" -> NonceOf(st, a) [] pol = "future" -> NonceOf(st, a) + 2
MkTx(type, from, signers, multi, pol, args, mut) ==
   [id |-> NextId, type |-> type, sender |-> from, from |-> from, signedBy |-> signers,
    intact |-> mut \notin {"flip-data", "flip-nonce", "flip-sig"}, multi |-> multi,
    nonce |-> NonceFor(from, pol), pol |-> pol, chain |-> Chain, gasCoin |-> Base, gasPrice |-> 1, bytes |-> 0,
    args |-> IF mut = "high-s" THEN args @@ [malleated |-> "high-s"] ELSE args, mut |-> mut, dupOf |-> "", hash |-> NextId, len |-> 100]

Amounts == 1..3
MsAddr == "ms:t1"      \* the model creates at most one multisig account, with the first transaction of a behaviour

SendTxs ==
   {MkTx("Send", ab[1], <<ab[1]>>, FALSE, pol, [coin |-> Base, to |-> ab[2], value |-> v], "") :
       ab \in {x \in Users \X Users : x[1] # x[2]}, v \in Amounts, pol \in IF "Stale" \in Menu THEN {"next", "stale", "future"} ELSE {"next"}}
MultisendTxs ==
   {MkTx("Multisend", a, <<a>>, FALSE, "next", [list |-> <<[coin |-> Base, to |-> b, value |-> v], [coin |-> Base, to |-> c, value |-> 1]>>], "") :
       a \in {"a1"}, b \in {"a2"}, c \in {"a2", "a3"}, v \in {1, 2}}
CreateMsTxs ==
   IF cnt.total # 0 THEN {}
   ELSE {MkTx("CreateMultisig", "a1", <<"a1">>, FALSE, "next",
              [owners |-> [a1 |-> 1, a2 |-> w2, a3 |-> 1], ownerSeq |-> <<"a1", "a2", "a3">>, nWeights |-> 3, threshold |-> th, address |-> MsAddr], "") :
           w2 \in {1, 2}, th \in {2, 3}}
\* the multisig account spends: every non-empty sequence of signers without and with one repetition
SignerSeqs == {<<"a1">>, <<"a2">>, <<"a1", "a2">>, <<"a2", "a3">>, <<"a1", "a2", "a3">>, <<"a2", "a2">>, <<"a1", "a1", "a2">>, <<"a1", "o1">>, <<"o1", "o1", "o1">>}
MsSpendTxs ==
   IF ~IsMsig(st, MsAddr) THEN {}
   ELSE {MkTx("Send", MsAddr, sg, TRUE, "next", [coin |-> Base, to |-> "a3", value |-> 1], "") : sg \in SignerSeqs}
FundMsTxs ==
   IF ~IsMsig(st, MsAddr) THEN {}
   ELSE {MkTx("Send", "a2", <<"a2">>, FALSE, "next", [coin |-> Base, to |-> MsAddr, value |-> 3], "")}
EditMsTxs ==
   IF ~IsMsig(st, MsAddr) THEN {}
   ELSE {MkTx("EditMultisig", MsAddr, <<"a1", "a2">>, TRUE, "next",
              [owners |-> [a3 |-> 2, o1 |-> 1], ownerSeq |-> <<"a3", "o1">>, nWeights |-> 2, threshold |-> th], "") : th \in {2, 4}}
LockTxs ==
   {MkTx("Lock", a, <<a>>, FALSE, "next", [coin |-> Base, value |-> v, due |-> st.h + d], "") : a \in {"a1"}, v \in {1, 2}, d \in {0, 1, 2}}
\* checks: issuer a2, passwords are ground truth of the harness; due relative to the block being built
CheckIds == {"k1", "k2"}
RedeemTxs ==
   {MkTx("RedeemCheck", r, <<r>>, FALSE, "next",
         [check |-> k, issuer |-> "a2", checkCoin |-> Base, checkGasCoin |-> Base, value |-> (IF k = "k1" THEN 1 ELSE 2),
          due |-> (IF k = "k1" THEN H0 + 1 ELSE H0 + 3), checkChain |-> Chain, proofOk |-> pk], "") :
       r \in {"a1", "a3"}, k \in CheckIds, pk \in BOOLEAN}
MutTxs ==
   {MkTx("Send", "a1", <<"a1">>, FALSE, "next", [coin |-> Base, to |-> "a2", value |-> 1], m) : m \in {"flip-data", "flip-sig", "high-s"}}
\* a payload and a gas price above one: the commission is gas price x (type price + bytes x byte price), also when the transaction fails
\* (a3 owns one unit: the failure fee is capped at its balance; a1 can pay the failure fee of 8 only before it has spent anything)
PricedTxs ==
   {[MkTx("Send", a, <<a>>, FALSE, "next", [coin |-> Base, to |-> "a2", value |-> v], "") EXCEPT !.gasPrice = 2, !.bytes = 3] : a \in {"a1", "a3"}, v \in {1, 3}}
WrongSignerTxs ==   \* a3 signs a transaction that names a1's money: the signer is the sender, so a3 pays
   {}

\* the coin registry (tokens): o1 is rich enough to create tickers; a1 and a2 try what only the ticker's owner may do
MaxSupply == 40
RegistryLimits == [maxSupply |-> MaxSupply, minSupply |-> 2, minReserve |-> 10000]
Tok(type, from, args) == MkTx(type, from, <<from>>, FALSE, "next", args, "")
NewTok(sym, n, amt, mx, m, b) == [symbol |-> sym, symbolLen |-> n, amount |-> amt, max |-> mx, mintable |-> m, burnable |-> b]
TokenTxs ==
   {Tok("CreateToken", "o1", NewTok("TOK", 3, 10, 20, TRUE, TRUE)), Tok("CreateToken", "o1", NewTok("TOKENS", 6, 5, 5, FALSE, FALSE)),
    Tok("CreateToken", "a1", NewTok("TOK", 3, 1, 1, FALSE, TRUE)), Tok("CreateToken", "o1", NewTok("BADSUP", 6, 30, 20, TRUE, TRUE)),
    Tok("CreateToken", "o1", NewTok("FIXED", 5, 5, 10, FALSE, TRUE)), Tok("CreateToken", "o1", NewTok("HUGE", 4, 1, 41, TRUE, TRUE)),
    Tok("RecreateToken", "o1", NewTok("TOK", 3, 7, 30, TRUE, FALSE)), Tok("RecreateToken", "a1", NewTok("TOK", 3, 7, 30, TRUE, FALSE)),
    Tok("RecreateToken", "o1", NewTok("NONE", 4, 7, 30, TRUE, FALSE)),
    Tok("EditCoinOwner", "o1", [symbol |-> "TOK", newOwner |-> "a1"]), Tok("EditCoinOwner", "a2", [symbol |-> "TOK", newOwner |-> "a2"]),
    Tok("MintToken", "o1", [coin |-> "1", value |-> 5]), Tok("MintToken", "o1", [coin |-> "1", value |-> 11]), Tok("MintToken", "a1", [coin |-> "1", value |-> 1]),
    Tok("MintToken", "o1", [coin |-> "2", value |-> 1]), Tok("MintToken", "o1", [coin |-> "9", value |-> 1]),
    Tok("BurnToken", "o1", [coin |-> "1", value |-> 4]), Tok("BurnToken", "o1", [coin |-> "1", value |-> 10]), Tok("BurnToken", "a1", [coin |-> "1", value |-> 1]),
    Tok("Send", "o1", [coin |-> "1", to |-> "a1", value |-> 2])}
   \cup (IF "Coins" \in Menu
         THEN {Tok("CreateCoin", "o1", NewTok("TOK", 3, 5, 30, FALSE, FALSE) @@ [reserve |-> 10000, crr |-> 50]),
               Tok("CreateCoin", "o1", NewTok("COIN", 4, 5, 30, FALSE, FALSE) @@ [reserve |-> 9999, crr |-> 50]),
               Tok("CreateCoin", "o1", NewTok("COIN", 4, 5, 30, FALSE, FALSE) @@ [reserve |-> 10000, crr |-> 9]),
               Tok("CreateCoin", "o1", NewTok("COIN", 4, 1, 30, FALSE, FALSE) @@ [reserve |-> 10000, crr |-> 100]),
               Tok("CreateCoin", "a1", NewTok("POOR", 4, 5, 30, FALSE, FALSE) @@ [reserve |-> 10000, crr |-> 50]),
               Tok("RecreateCoin", "o1", NewTok("TOK", 3, 6, 40, FALSE, FALSE) @@ [reserve |-> 12000, crr |-> 10]),
               Tok("RecreateCoin", "a1", NewTok("TOK", 3, 6, 40, FALSE, FALSE) @@ [reserve |-> 12000, crr |-> 10])}
         ELSE {})
\* a ticker recreated again and again (every archived coin gets a version of its own), by its owner, by a new owner, as a token or as a coin
RecreateTxs ==
   {Tok("CreateToken", "o1", NewTok("TOK", 3, 10, 20, TRUE, TRUE)),
    Tok("RecreateToken", "o1", NewTok("TOK", 3, 7, 30, TRUE, FALSE)), Tok("RecreateToken", "a1", NewTok("TOK", 3, 7, 30, TRUE, FALSE)),
    Tok("RecreateCoin", "o1", NewTok("TOK", 3, 6, 40, FALSE, FALSE) @@ [reserve |-> 10000, crr |-> 10]),
    Tok("EditCoinOwner", "o1", [symbol |-> "TOK", newOwner |-> "a1"])}
TxMenu == (IF "Tokens" \in Menu THEN TokenTxs ELSE {}) \cup (IF "Recreate" \in Menu THEN RecreateTxs ELSE {}) \cup (IF "Send" \in Menu THEN SendTxs ELSE {})
     \cup (IF "Multisend" \in Menu THEN MultisendTxs ELSE {})
     \cup (IF "Multisig" \in Menu THEN CreateMsTxs \cup MsSpendTxs \cup FundMsTxs \cup EditMsTxs ELSE {})
     \cup (IF "Lock" \in Menu THEN LockTxs ELSE {})
     \cup (IF "Check" \in Menu THEN RedeemTxs ELSE {})
     \cup (IF "Mutate" \in Menu THEN MutTxs ELSE {})
     \cup (IF "Priced" \in Menu THEN PricedTxs ELSE {})

Repeats == IF "Redeliver" \in Menu
           THEN {[sent[i] EXCEPT !.id = NextId, !.dupOf = IF sent[i].dupOf = "" THEN sent[i].id ELSE sent[i].dupOf] : i \in 1..Len(sent)}
           ELSE {}

TxStep(tx) == [op |-> "tx", id |-> tx.id, type |-> tx.type, from |-> tx.from, sign |-> tx.signedBy, multi |-> tx.multi,
               nonce |-> tx.pol, args |-> tx.args, mut |-> tx.mut, repeat |-> tx.dupOf,
               gasPrice |-> (IF tx.gasPrice = 1 THEN 0 ELSE tx.gasPrice), payload |-> tx.bytes]

Deliver(tx) ==
   /\ phase = "begun" /\ cnt.inBlock < MaxTxPerBlock /\ cnt.total < MaxTxTotal
   /\ LET r == RunTxC(st, tx, st.h, GenesisCfg, RegistryLimits)
      IN /\ st' = r.st
         /\ ev' = [Ev("DeliverTx", st.h) EXCEPT !.resp = [code |-> r.code, gas |-> 0, tags |-> r.tags, log |-> ""], !.check = r.code] @@ [tx |-> tx]
         /\ hist' = [hist EXCEPT !.accepted = IF r.code = 0 THEN @ \cup {tx.hash} ELSE @,
                                  !.seen = IF tx.hash \in DOMAIN @ THEN @ ELSE @ @@ (tx.hash :> r.code)]
   /\ sent' = Append(sent, tx)
   /\ scn' = Append(scn, TxStep(tx))
   /\ cnt' = [cnt EXCEPT !.inBlock = @ + 1, !.total = @ + 1]
   /\ UNCHANGED <<disk, phase>>

Next == Begin \/ End \/ Commit \/ (\E tx \in TxMenu \cup Repeats : Deliver(tx))
Spec == Init /\ [][Next]_mvars

\* ---------------------------------------------------------------- what TLC checks
View == <<st, disk, ev, hist, phase, cnt, sent>>          \* the scenario under construction is not part of the state
P_C01 == [][C01_Step]_mvars
P_C02 == [][C02_Step]_mvars
P_C03 == [][C03_Step]_mvars
P_C04 == [][C04_Step]_mvars
P_C05 == [][C05_Step]_mvars
P_C06 == [][C06_Step]_mvars
P_C26 == [][C26_Step]_mvars
\* the parts of C16 (Lock: freeze until the due block, maturity at the due block only, nothing leaves early) and of C21
\* (RedeemCheck: due block, chain, proof, single use, payer) that the ledger family's actions reach
P_C16 == [][C16_Step]_mvars
P_C21 == [][C21_Step]_mvars
P_C27 == [][C27_Step]_mvars
P_C22 == [][C22_Step]_mvars
TypeOK == /\ phase \in {"idle", "begun", "ended"}
          /\ C02_State(st)
          /\ CustomConserved(st)

\* vacuity guard of the token configuration (ACTION_CONSTRAINT ReachStep, see MCStaking)
ReachReg == 9
ASSUME TLCSet(ReachReg, {})
Mark(name, cond) == IF cond /\ name \notin TLCGet(ReachReg) THEN PrintT("REACH " \o name) /\ TLCSet(ReachReg, TLCGet(ReachReg) \cup {name}) ELSE TRUE
OkTx(t) == Delivered /\ Code = 0 /\ Tx.type = t
RejTx(t, c) == Delivered /\ Code = c /\ Tx.type = t
ReachStep ==
   /\ Mark("CreateOk", OkTx("CreateToken"))
   /\ Mark("CreateDuplicate", RejTx("CreateToken", CoinAlreadyExists))
   /\ Mark("CreateBadSupply", RejTx("CreateToken", WrongCoinSupply))
   /\ Mark("RecreateOk", OkTx("RecreateToken"))
   /\ Mark("RecreateByOther", RejTx("RecreateToken", IsNotOwnerOfCoin))
   /\ Mark("RecreateUnknown", RejTx("RecreateToken", CoinNotExists))
   /\ Mark("OwnerChanged", OkTx("EditCoinOwner"))
   /\ Mark("OwnerChangeByOther", RejTx("EditCoinOwner", IsNotOwnerOfCoin))
   /\ Mark("RecreateByNewOwner", OkTx("RecreateToken") /\ Tx.sender = "a1")
   /\ Mark("MintOk", OkTx("MintToken"))
   /\ Mark("MintOverMax", RejTx("MintToken", WrongCoinEmission) /\ Tx.sender = "o1" /\ Arg("value") = 11)
   /\ Mark("MintByOther", RejTx("MintToken", IsNotOwnerOfCoin) /\ Tx.sender = "a1")
   /\ Mark("MintArchivedVersion", RejTx("MintToken", IsNotOwnerOfCoin) /\ Arg("coin") \in DOMAIN st.coins /\ st.coins[Arg("coin")].ver # 0)
   /\ Mark("MintNotMintable", RejTx("MintToken", CoinNotMintable))
   /\ Mark("BurnOk", OkTx("BurnToken"))
   /\ Mark("BurnByHolder", OkTx("BurnToken") /\ Tx.sender = "a1")
   /\ Mark("BurnBelowMinimum", RejTx("BurnToken", WrongCoinEmission))
   /\ Mark("BurnNotBurnable", RejTx("BurnToken", CoinNotBurnable))
   /\ Mark("RecreatedThreeTimes", OkTx("RecreateToken") /\ \E c \in DOMAIN st.coins : st.coins[c].sym = Arg("symbol") /\ st.coins[c].ver = 2)
   /\ Mark("CoinCreated", OkTx("CreateCoin"))
   /\ Mark("CoinReserveTooLow", RejTx("CreateCoin", WrongCoinSupply))
   /\ Mark("CoinWrongCrr", RejTx("CreateCoin", WrongCrr))
   /\ Mark("CoinCreatorTooPoor", RejTx("CreateCoin", InsufficientFunds))
   /\ Mark("CoinRecreated", OkTx("RecreateCoin"))
   /\ Mark("CoinRecreateByOther", RejTx("RecreateCoin", IsNotOwnerOfCoin))

\* scenario dump: printed for every state at a block boundary of the last block
Dump == (phase = "idle" /\ cnt.blocks = MaxBlocks) => PrintT("SCN " \o ToJson(scn))
=============================================================================
