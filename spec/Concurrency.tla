------------------------------- MODULE Concurrency -------------------------------
(***************************************************************************)
(* Queries against block execution (C25).  One writer walks the ABCI phases *)
(* of consecutive blocks; reader threads serve API query kinds.  A reader   *)
(* never changes chain state (it only fills read caches), so every reader   *)
(* step is a stuttering step of the chain: the chain's observable outputs   *)
(* (out) depend on the blocks alone.  The model is used for two things:     *)
(*   - TLC checks the design claim "queries are stuttering steps" under     *)
(*     every interleaving in a small scope (ReadersInvisible);              *)
(*   - every SCHEDULE (which query kinds overlap which phase) of the         *)
(*     generation config is replayed in the real node: reader goroutines    *)
(*     hammer those query kinds while the writer executes that phase, next   *)
(*     to a twin without readers.  Inside a phase the Go scheduler decides   *)
(*     the interleaving; the model fixes only what overlaps what.            *)
(***************************************************************************)
EXTENDS Integers, Sequences, FiniteSets, TLC, Json

CONSTANTS Phases,         \* <<"begin", "deliver", "end", "commit">>
          QueryKinds,     \* kinds of read-only queries
          MaxKindsPerPhase,
          MaxServed,      \* queries served per behaviour (0 in the generation config: only the schedules are enumerated)
          Blocks

VARIABLES phaseIdx, block, chain, cache, out, served, sched
cvars == <<phaseIdx, block, chain, cache, out, served, sched>>

AbciPhases == <<"begin", "deliver", "end", "commit">>

Init ==
   /\ phaseIdx = 0 /\ block = 1
   /\ chain = 0                      \* abstract chain state: number of writer steps applied
   /\ cache = {}                     \* read caches filled by queries (query kinds that have loaded something)
   /\ out = <<>>                     \* what the consensus engine sees: one output per writer step
   /\ served = 0
   /\ sched = <<>>

\* the writer executes the next phase; beforehand the schedule fixes which query kinds may overlap it
Writer(kinds) ==
   /\ block <= Blocks
   /\ Cardinality(kinds) <= MaxKindsPerPhase
   /\ chain' = chain + 1
   /\ out' = Append(out, chain + 1)                 \* the output is a function of the chain state only
   /\ sched' = Append(sched, [block |-> block, phase |-> Phases[phaseIdx + 1], kinds |-> kinds])
   /\ IF phaseIdx + 1 = Len(Phases) THEN phaseIdx' = 0 /\ block' = block + 1 ELSE phaseIdx' = phaseIdx + 1 /\ block' = block
   /\ UNCHANGED <<cache, served>>

\* a reader serves one query of a kind scheduled for the phase in progress: it reads the chain and may fill a cache
Reader(k) ==
   /\ sched # <<>> /\ k \in sched[Len(sched)].kinds
   /\ served < MaxServed
   /\ cache' = cache \cup {k}
   /\ served' = served + 1
   /\ UNCHANGED <<phaseIdx, block, chain, out, sched>>

Next == (\E ks \in SUBSET QueryKinds : Writer(ks)) \/ (\E k \in QueryKinds : Reader(k))
Spec == Init /\ [][Next]_cvars

\* C25a at design level: reader steps change nothing the writer's outputs depend on
ReadersInvisible == [][(\E k \in QueryKinds : Reader(k)) => (chain' = chain /\ out' = out)]_cvars
OutputsFollowBlocks == out = [i \in 1..chain |-> i]

View == <<phaseIdx, block, chain, cache, out, served, IF sched = <<>> THEN {} ELSE sched[Len(sched)].kinds>>
Dump == (block > Blocks) => PrintT("SCN " \o ToJson(sched))
=============================================================================
