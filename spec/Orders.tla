------------------------------- MODULE Orders -------------------------------
(***************************************************************************)
(* Placing and cancelling limit orders as pure functions on the abstract   *)
(* state (coreV2/transaction/add_order.go, remove_limit_order.go): the      *)
(* escrow of the volume to sell, the next order id, the admissible price    *)
(* band (not better for the maker than the pool's price, not worse than a   *)
(* fifth of it -- exact rationals in the node, cross-multiplied here), the  *)
(* refund of exactly the unfilled remainder to the owner.  Filling orders   *)
(* is not specified here: the node walks the book with floating-point       *)
(* prices (see DESIGN.md 14.6).                                             *)
(* orders[id] = [pool, sellCoin, buyCoin, sell, buy, owner, h]              *)
(***************************************************************************)
EXTENDS Coins

CrossConvert == 301
PairNotExists == 701
OrderNotExists == 711
IsNotOwnerOfOrder == 712
WrongOrderPrice == 713
WrongOrderVolume == 714
MinOrderVolume == Nat2A(10000) ** Nat2A(1000000)

OrderTypes == {"AddLimitOrder", "RemoveLimitOrder"}
OrdersSupported(s, tx) == tx.type \in OrderTypes /\ tx.gasCoin = Base /\ s.priceCoin = Base

OrderPrice(s, tx) == tx.gasPrice ** ((IF tx.type = "AddLimitOrder" THEN PT(s).AddLimitOrder ELSE PT(s).RemoveLimitOrder) ++ (Nat2A(tx.bytes) ** PT(s).PayloadByte))
PaidO(s, tx) == LET fee == OrderPrice(s, tx) IN SetNonce(AddPool(SubBal(s, tx.sender, Base, fee), fee), tx.sender, tx.nonce)
PoolsOf(s, a, b) == {p \in DOMAIN s.pools : {s.pools[p].c0, s.pools[p].c1} = {a, b}}
ReserveOf(s, p, c) == IF s.pools[p].c0 = c THEN s.pools[p].r0 ELSE s.pools[p].r1

RunAddOrder(s, tx, h) ==
   LET a == tx.args  o == tx.sender  fee == OrderPrice(s, tx)
       ps == PoolsOf(s, a.sell, a.buy)
   IN IF a.sell = a.buy THEN FailWith(CrossConvert, s, tx, o)
      ELSE IF a.buyValue \prec MinOrderVolume \/ a.sellValue \prec MinOrderVolume THEN FailWith(WrongOrderVolume, s, tx, o)
      ELSE IF ps = {} THEN FailWith(PairNotExists, s, tx, o)
      ELSE IF (a.sell # Base /\ Bal(s, o, Base) \prec fee) \/ Bal(s, o, a.sell) \prec (a.sellValue ++ (IF a.sell = Base THEN fee ELSE Zero))
      THEN FailWith(InsufficientFunds, s, tx, o)
      ELSE LET p == CHOOSE x \in ps : TRUE
               rS == ReserveOf(s, p, a.sell)  rB == ReserveOf(s, p, a.buy)
           IN IF (rS ** a.buyValue) \prec (a.sellValue ** rB) \/ ((Nat2A(5) ** a.sellValue) ** rB) \prec (rS ** a.buyValue)
              THEN FailWith(WrongOrderPrice, s, tx, o)
              ELSE LET id == ToString(s.nextOrder)
                       s1 == SubBal(PaidO(s, tx), o, a.sell, a.sellValue)
                   IN Res(OK, [s1 EXCEPT !.orders = (id :> [pool |-> p, sellCoin |-> a.sell, buyCoin |-> a.buy, sell |-> a.sellValue, buy |-> a.buyValue, owner |-> o, h |-> h]) @@ @,
                                          !.nextOrder = @ + 1], fee)
Without2(f, k) == [x \in DOMAIN f \ {k} |-> f[x]]
RunRemoveOrder(s, tx) ==
   LET id == ToString(tx.args.order)  o == tx.sender  fee == OrderPrice(s, tx)
   IN IF Bal(s, o, Base) \prec fee THEN FailWith(InsufficientFunds, s, tx, o)
      ELSE IF id \notin DOMAIN s.orders THEN FailWith(OrderNotExists, s, tx, o)
      ELSE IF s.orders[id].owner # o THEN FailWith(IsNotOwnerOfOrder, s, tx, o)
      ELSE LET ord == s.orders[id]
           IN Res(OK, AddBal([PaidO(s, tx) EXCEPT !.orders = Without2(@, id)], o, ord.sellCoin, ord.sell), fee)

RunTxO(s, tx, h, cfg, lim) ==
   IF tx.type \notin OrderTypes THEN RunTxC(s, tx, h, cfg, lim)
   ELSE IF ~tx.intact \/ Malleated(tx) THEN Reject(DecodeError, s)
   ELSE IF tx.chain # cfg.chain THEN Reject(WrongChainID, s)
   ELSE IF ~CoinExists(s, tx.gasCoin) THEN Reject(CoinNotExists, s)
   ELSE IF tx.multi /\ MultisigCode(s, tx) # OK THEN Reject(MultisigCode(s, tx), s)
   ELSE IF tx.nonce # NonceOf(s, tx.sender) + 1 THEN Reject(WrongNonce, s)
   ELSE IF tx.type = "AddLimitOrder" THEN RunAddOrder(s, tx, h) ELSE RunRemoveOrder(s, tx)
=============================================================================
