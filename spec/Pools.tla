------------------------------- MODULE Pools -------------------------------
(***************************************************************************)
(* Swap-pool arithmetic as exact integer functions (coreV2/state/swap:      *)
(* CalculateBuyForSell, CalculateSellForBuy, CalculateAddLiquidity,         *)
(* Amounts, startingSupply), over module Amount: the same text is           *)
(* model-checked over small integers and over decimal strings.              *)
(* A result of NoTrade means the node refuses the operation.                *)
(***************************************************************************)
EXTENDS Amount

NoTrade == Zero -- One       \* (results of a trade are positive)
Fee == Nat2A(2)            \* per mille
K1 == Nat2A(1000)
K2 == Nat2A(1000000)
\* output for selling `in` into reserve rIn, taking from reserve rOut (0.2% fee on the input, rounded against the trader, minus one)
BuyForSell(rIn, rOut, in) ==
   LET kAdj == (rIn ** rOut) ** K2
       balAdj == ((in ++ rIn) ** K1) -- (in ** Fee)
       out == (rOut -- (kAdj // (balAdj ** K1))) -- One
   IN IF Zero \prec out THEN out ELSE NoTrade
\* input needed to take `out` from reserve rOut (rounded against the trader, plus one)
SellForBuy(rIn, rOut, out) ==
   IF ~(out \prec rOut) THEN NoTrade
   ELSE LET kAdj == (rIn ** rOut) ** K2
            balAdj == (rOut -- out) ** K1
        IN (((kAdj // balAdj) -- (rIn ** K1)) // (K1 -- Fee)) ++ One
\* a trade through the pool (swap version 2): a thousandth of what the trader pays, rounded up, is burned; the rest enters the pool.
\*   selling `in`:  the pool receives net = in - Burned(in) and pays BuyForSell(.., net)
\*   buying `out`:  the pool needs x = SellForBuy(.., out); the trader pays x + ceil(x/999), of which Burned(..) = ceil(x/999) is burned
Burned(a) == (a ++ Nat2A(999)) // K1
Ceil999(x) == (x ++ Nat2A(998)) // Nat2A(999)
SellTrade(rIn, rOut, in) ==
   LET net == in -- Burned(in)
       out == IF Zero \prec net THEN BuyForSell(rIn, rOut, net) ELSE NoTrade
   IN [ok |-> out # NoTrade, pay |-> in, net |-> net, out |-> out, burned |-> Burned(in)]
BuyTrade(rIn, rOut, out) ==
   LET x == SellForBuy(rIn, rOut, out)
   IN [ok |-> x # NoTrade /\ Zero \prec x, pay |-> x ++ Ceil999(x), net |-> x, out |-> out, burned |-> Ceil999(x)]
\* adding liquidity: pool tokens minted and the amount of the second coin taken, for a0 of the first coin
MintFor(r0, r1, sup, a0) == [liq |-> (sup ** a0) // r0, a1 |-> (a0 ** r1) // r0]
\* removing liquidity
AmountsFor(r0, r1, sup, liq) == [a0 |-> (liq ** r0) // sup, a1 |-> (liq ** r1) // sup]
StartingSupply(a0, a1) == ASqrt(a0 ** a1)
=============================================================================
