---- MODULE MCLedger_TTrace_1790033370 ----
EXTENDS Sequences, TLCExt, MCLedger, Toolbox, Naturals, TLC

_expression ==
    LET MCLedger_TEExpression == INSTANCE MCLedger_TEExpression
    IN MCLedger_TEExpression!expression
----

_trace ==
    LET MCLedger_TETrace == INSTANCE MCLedger_TETrace
    IN MCLedger_TETrace!trace
----

_inv ==
    ~(
        TLCGet("level") = Len(_TETrace)
        /\
        phase = ("begun")
        /\
        ev = ([h |-> 101, kind |-> "DeliverTx", sc |-> "mc", i |-> 0, check |-> 107, resp |-> [code |-> 107, gas |-> 0, tags |-> <<>>, log |-> ""], hash |-> "", panic |-> "", tx |-> [nonce |-> 1, id |-> "t2", hash |-> "t1", chain |-> 2, pol |-> "next", type |-> "Send", from |-> "a1", multi |-> FALSE, args |-> [to |-> "a2", coin |-> "0", value |-> 3], mut |-> "", sender |-> "a1", signedBy |-> <<"a1">>, intact |-> TRUE, gasCoin |-> "0", gasPrice |-> 1, bytes |-> 0, dupOf |-> "t1", len |-> 100]])
        /\
        st = ([h |-> 101, bal |-> [a1 |-> ("0" :> 1), a2 |-> ("0" :> 3), a3 |-> ("0" :> 1), o1 |-> ("0" :> 100)], nonce |-> <<>>, lockUntil |-> <<>>, msig |-> <<>>, coins |-> <<>>, nextCoin |-> 1, cands |-> [v1 |-> [id |-> 1, owner |-> "o1", control |-> "o1", reward |-> "o1", status |-> 2, jailedUntil |-> 0, comm |-> 10, lastEdit |-> 0, total |-> 1000, stakes |-> <<[o |-> "o1", c |-> "0", v |-> 1000, bv |-> 1000]>>, upd |-> <<>>]], reward |-> 1, wait |-> <<>>, frozen |-> <<>>, pools |-> <<>>, orders |-> <<>>, nextOrder |-> 1, checksUsed |-> <<>>, haltVotes |-> <<>>, commVotes |-> <<>>, updVotes |-> <<>>, price |-> [Send |-> 1, MultisendBase |-> 1, MultisendDelta |-> 1, CreateMultisig |-> 1, EditMultisig |-> 1, RedeemCheck |-> 1, Lock |-> 1, LockStake |-> 1, SellBancor |-> 1, SellAllBancor |-> 1, BuyBancor |-> 1, CreateCoin |-> 1, CreateToken |-> 1, RecreateCoin |-> 1, RecreateToken |-> 1, EditTickerOwner |-> 1, MintToken |-> 1, BurnToken |-> 1, DeclareCandidacy |-> 1, Delegate |-> 1, Unbond |-> 1, MoveStake |-> 1, SetCandidateOn |-> 1, SetCandidateOff |-> 1, EditCandidate |-> 1, EditCandidateCommission |-> 1, EditCandidatePublicKey |-> 1, SetHaltBlock |-> 1, VoteCommission |-> 1, VoteUpdate |-> 1, CreateSwapPool |-> 1, AddLiquidity |-> 1, RemoveLiquidity |-> 1, SellPoolBase |-> 1, SellPoolDelta |-> 1, BuyPoolBase |-> 1, BuyPoolDelta |-> 1, SellAllPoolBase |-> 1, SellAllPoolDelta |-> 1, AddLimitOrder |-> 1, RemoveLimitOrder |-> 1, CreateTicker3 |-> 1, CreateTicker4 |-> 1, CreateTicker5 |-> 1, CreateTicker6 |-> 1, CreateTicker7to10 |-> 1, PayloadByte |-> 1, FailedTx |-> 1], priceCoin |-> "0", vals |-> <<[p |-> "v1", stake |-> 1000, accum |-> 0, absent |-> 0, bits |-> "", toDrop |-> FALSE]>>, rewardPool |-> 2, slashed |-> 0, emission |-> 1000, safeReward |-> 1, priceRec |-> [t |-> 0, r0 |-> 0, r1 |-> 0, last |-> 0, off |-> FALSE], maxGas |-> 100000, versions |-> <<>>, deleted |-> <<>>, blocked |-> <<>>])
        /\
        disk = ([h |-> 100, bal |-> [a1 |-> ("0" :> 3), a2 |-> ("0" :> 3), a3 |-> ("0" :> 1), o1 |-> ("0" :> 100)], nonce |-> <<>>, lockUntil |-> <<>>, msig |-> <<>>, coins |-> <<>>, nextCoin |-> 1, cands |-> [v1 |-> [id |-> 1, owner |-> "o1", control |-> "o1", reward |-> "o1", status |-> 2, jailedUntil |-> 0, comm |-> 10, lastEdit |-> 0, total |-> 1000, stakes |-> <<[o |-> "o1", c |-> "0", v |-> 1000, bv |-> 1000]>>, upd |-> <<>>]], reward |-> 1, wait |-> <<>>, frozen |-> <<>>, pools |-> <<>>, orders |-> <<>>, nextOrder |-> 1, checksUsed |-> <<>>, haltVotes |-> <<>>, commVotes |-> <<>>, updVotes |-> <<>>, price |-> [Send |-> 1, MultisendBase |-> 1, MultisendDelta |-> 1, CreateMultisig |-> 1, EditMultisig |-> 1, RedeemCheck |-> 1, Lock |-> 1, LockStake |-> 1, SellBancor |-> 1, SellAllBancor |-> 1, BuyBancor |-> 1, CreateCoin |-> 1, CreateToken |-> 1, RecreateCoin |-> 1, RecreateToken |-> 1, EditTickerOwner |-> 1, MintToken |-> 1, BurnToken |-> 1, DeclareCandidacy |-> 1, Delegate |-> 1, Unbond |-> 1, MoveStake |-> 1, SetCandidateOn |-> 1, SetCandidateOff |-> 1, EditCandidate |-> 1, EditCandidateCommission |-> 1, EditCandidatePublicKey |-> 1, SetHaltBlock |-> 1, VoteCommission |-> 1, VoteUpdate |-> 1, CreateSwapPool |-> 1, AddLiquidity |-> 1, RemoveLiquidity |-> 1, SellPoolBase |-> 1, SellPoolDelta |-> 1, BuyPoolBase |-> 1, BuyPoolDelta |-> 1, SellAllPoolBase |-> 1, SellAllPoolDelta |-> 1, AddLimitOrder |-> 1, RemoveLimitOrder |-> 1, CreateTicker3 |-> 1, CreateTicker4 |-> 1, CreateTicker5 |-> 1, CreateTicker6 |-> 1, CreateTicker7to10 |-> 1, PayloadByte |-> 1, FailedTx |-> 1], priceCoin |-> "0", vals |-> <<[p |-> "v1", stake |-> 1000, accum |-> 0, absent |-> 0, bits |-> "", toDrop |-> FALSE]>>, rewardPool |-> 0, slashed |-> 0, emission |-> 1000, safeReward |-> 1, priceRec |-> [t |-> 0, r0 |-> 0, r1 |-> 0, last |-> 0, off |-> FALSE], maxGas |-> 100000, versions |-> <<>>, deleted |-> <<>>, blocked |-> <<>>])
        /\
        hist = ([sc |-> "mc", accepted |-> {}, seen |-> [t1 |-> 107], cValid |-> TRUE, cBase |-> 1107, cEmission |-> 1000, cfg |-> [world |-> "W1u", stakePeriod |-> 1000, expirePeriod |-> 1000, initial |-> 101, unbond |-> 531, move |-> 177, jail |-> 354, chain |-> 2, family |-> "ledger"], unit |-> 1])
        /\
        cnt = ([total |-> 2, blocks |-> 0, inBlock |-> 2])
        /\
        sent = (<<[nonce |-> 1, id |-> "t1", hash |-> "t1", chain |-> 2, pol |-> "next", type |-> "Send", from |-> "a1", multi |-> FALSE, args |-> [to |-> "a2", coin |-> "0", value |-> 3], mut |-> "", sender |-> "a1", signedBy |-> <<"a1">>, intact |-> TRUE, gasCoin |-> "0", gasPrice |-> 1, bytes |-> 0, dupOf |-> "", len |-> 100], [nonce |-> 1, id |-> "t2", hash |-> "t1", chain |-> 2, pol |-> "next", type |-> "Send", from |-> "a1", multi |-> FALSE, args |-> [to |-> "a2", coin |-> "0", value |-> 3], mut |-> "", sender |-> "a1", signedBy |-> <<"a1">>, intact |-> TRUE, gasCoin |-> "0", gasPrice |-> 1, bytes |-> 0, dupOf |-> "t1", len |-> 100]>>)
        /\
        scn = (<<[op |-> "begin"], [nonce |-> "next", id |-> "t1", op |-> "tx", type |-> "Send", from |-> "a1", multi |-> FALSE, args |-> [to |-> "a2", coin |-> "0", value |-> 3], mut |-> "", sign |-> <<"a1">>, repeat |-> ""], [nonce |-> "next", id |-> "t2", op |-> "tx", type |-> "Send", from |-> "a1", multi |-> FALSE, args |-> [to |-> "a2", coin |-> "0", value |-> 3], mut |-> "", sign |-> <<"a1">>, repeat |-> "t1"]>>)
    )
----

_init ==
    /\ scn = _TETrace[1].scn
    /\ ev = _TETrace[1].ev
    /\ disk = _TETrace[1].disk
    /\ phase = _TETrace[1].phase
    /\ cnt = _TETrace[1].cnt
    /\ st = _TETrace[1].st
    /\ hist = _TETrace[1].hist
    /\ sent = _TETrace[1].sent
----

_next ==
    /\ \E i,j \in DOMAIN _TETrace:
        /\ \/ /\ j = i + 1
              /\ i = TLCGet("level")
        /\ scn  = _TETrace[i].scn
        /\ scn' = _TETrace[j].scn
        /\ ev  = _TETrace[i].ev
        /\ ev' = _TETrace[j].ev
        /\ disk  = _TETrace[i].disk
        /\ disk' = _TETrace[j].disk
        /\ phase  = _TETrace[i].phase
        /\ phase' = _TETrace[j].phase
        /\ cnt  = _TETrace[i].cnt
        /\ cnt' = _TETrace[j].cnt
        /\ st  = _TETrace[i].st
        /\ st' = _TETrace[j].st
        /\ hist  = _TETrace[i].hist
        /\ hist' = _TETrace[j].hist
        /\ sent  = _TETrace[i].sent
        /\ sent' = _TETrace[j].sent

\* Uncomment the ASSUME below to write the states of the error trace
\* to the given file in Json format. Note that you can pass any tuple
\* to `JsonSerialize`. For example, a sub-sequence of _TETrace.
    \* ASSUME
    \*     LET J == INSTANCE Json
    \*         IN J!JsonSerialize("MCLedger_TTrace_1790033370.json", _TETrace)

=============================================================================

 Note that you can extract this module `MCLedger_TEExpression`
  to a dedicated file to reuse `expression` (the module in the 
  dedicated `MCLedger_TEExpression.tla` file takes precedence 
  over the module `MCLedger_TEExpression` below).

---- MODULE MCLedger_TEExpression ----
EXTENDS Sequences, TLCExt, MCLedger, Toolbox, Naturals, TLC

expression == 
    [
        \* To hide variables of the `MCLedger` spec from the error trace,
        \* remove the variables below.  The trace will be written in the order
        \* of the fields of this record.
        scn |-> scn
        ,ev |-> ev
        ,disk |-> disk
        ,phase |-> phase
        ,cnt |-> cnt
        ,st |-> st
        ,hist |-> hist
        ,sent |-> sent
        
        \* Put additional constant-, state-, and action-level expressions here:
        \* ,_stateNumber |-> _TEPosition
        \* ,_scnUnchanged |-> scn = scn'
        
        \* Format the `scn` variable as Json value.
        \* ,_scnJson |->
        \*     LET J == INSTANCE Json
        \*     IN J!ToJson(scn)
        
        \* Lastly, you may build expressions over arbitrary sets of states by
        \* leveraging the _TETrace operator.  For example, this is how to
        \* count the number of times a spec variable changed up to the current
        \* state in the trace.
        \* ,_scnModCount |->
        \*     LET F[s \in DOMAIN _TETrace] ==
        \*         IF s = 1 THEN 0
        \*         ELSE IF _TETrace[s].scn # _TETrace[s-1].scn
        \*             THEN 1 + F[s-1] ELSE F[s-1]
        \*     IN F[_TEPosition - 1]
    ]

=============================================================================



Parsing and semantic processing can take forever if the trace below is long.
 In this case, it is advised to uncomment the module below to deserialize the
 trace from a generated binary file.

\*
\*---- MODULE MCLedger_TETrace ----
\*EXTENDS IOUtils, MCLedger, TLC
\*
\*trace == IODeserialize("MCLedger_TTrace_1790033370.bin", TRUE)
\*
\*=============================================================================
\*

---- MODULE MCLedger_TETrace ----
EXTENDS MCLedger, TLC

trace == 
    <<
    ([phase |-> "idle",ev |-> [h |-> 100, kind |-> "Init", sc |-> "mc", i |-> 0, check |-> -1, resp |-> [code |-> 0, gas |-> 0, tags |-> <<>>, log |-> ""], hash |-> "", panic |-> ""],st |-> [h |-> 100, bal |-> [a1 |-> ("0" :> 3), a2 |-> ("0" :> 3), a3 |-> ("0" :> 1), o1 |-> ("0" :> 100)], nonce |-> <<>>, lockUntil |-> <<>>, msig |-> <<>>, coins |-> <<>>, nextCoin |-> 1, cands |-> [v1 |-> [id |-> 1, owner |-> "o1", control |-> "o1", reward |-> "o1", status |-> 2, jailedUntil |-> 0, comm |-> 10, lastEdit |-> 0, total |-> 1000, stakes |-> <<[o |-> "o1", c |-> "0", v |-> 1000, bv |-> 1000]>>, upd |-> <<>>]], reward |-> 1, wait |-> <<>>, frozen |-> <<>>, pools |-> <<>>, orders |-> <<>>, nextOrder |-> 1, checksUsed |-> <<>>, haltVotes |-> <<>>, commVotes |-> <<>>, updVotes |-> <<>>, price |-> [Send |-> 1, MultisendBase |-> 1, MultisendDelta |-> 1, CreateMultisig |-> 1, EditMultisig |-> 1, RedeemCheck |-> 1, Lock |-> 1, LockStake |-> 1, SellBancor |-> 1, SellAllBancor |-> 1, BuyBancor |-> 1, CreateCoin |-> 1, CreateToken |-> 1, RecreateCoin |-> 1, RecreateToken |-> 1, EditTickerOwner |-> 1, MintToken |-> 1, BurnToken |-> 1, DeclareCandidacy |-> 1, Delegate |-> 1, Unbond |-> 1, MoveStake |-> 1, SetCandidateOn |-> 1, SetCandidateOff |-> 1, EditCandidate |-> 1, EditCandidateCommission |-> 1, EditCandidatePublicKey |-> 1, SetHaltBlock |-> 1, VoteCommission |-> 1, VoteUpdate |-> 1, CreateSwapPool |-> 1, AddLiquidity |-> 1, RemoveLiquidity |-> 1, SellPoolBase |-> 1, SellPoolDelta |-> 1, BuyPoolBase |-> 1, BuyPoolDelta |-> 1, SellAllPoolBase |-> 1, SellAllPoolDelta |-> 1, AddLimitOrder |-> 1, RemoveLimitOrder |-> 1, CreateTicker3 |-> 1, CreateTicker4 |-> 1, CreateTicker5 |-> 1, CreateTicker6 |-> 1, CreateTicker7to10 |-> 1, PayloadByte |-> 1, FailedTx |-> 1], priceCoin |-> "0", vals |-> <<[p |-> "v1", stake |-> 1000, accum |-> 0, absent |-> 0, bits |-> "", toDrop |-> FALSE]>>, rewardPool |-> 0, slashed |-> 0, emission |-> 1000, safeReward |-> 1, priceRec |-> [t |-> 0, r0 |-> 0, r1 |-> 0, last |-> 0, off |-> FALSE], maxGas |-> 100000, versions |-> <<>>, deleted |-> <<>>, blocked |-> <<>>],disk |-> [h |-> 100, bal |-> [a1 |-> ("0" :> 3), a2 |-> ("0" :> 3), a3 |-> ("0" :> 1), o1 |-> ("0" :> 100)], nonce |-> <<>>, lockUntil |-> <<>>, msig |-> <<>>, coins |-> <<>>, nextCoin |-> 1, cands |-> [v1 |-> [id |-> 1, owner |-> "o1", control |-> "o1", reward |-> "o1", status |-> 2, jailedUntil |-> 0, comm |-> 10, lastEdit |-> 0, total |-> 1000, stakes |-> <<[o |-> "o1", c |-> "0", v |-> 1000, bv |-> 1000]>>, upd |-> <<>>]], reward |-> 1, wait |-> <<>>, frozen |-> <<>>, pools |-> <<>>, orders |-> <<>>, nextOrder |-> 1, checksUsed |-> <<>>, haltVotes |-> <<>>, commVotes |-> <<>>, updVotes |-> <<>>, price |-> [Send |-> 1, MultisendBase |-> 1, MultisendDelta |-> 1, CreateMultisig |-> 1, EditMultisig |-> 1, RedeemCheck |-> 1, Lock |-> 1, LockStake |-> 1, SellBancor |-> 1, SellAllBancor |-> 1, BuyBancor |-> 1, CreateCoin |-> 1, CreateToken |-> 1, RecreateCoin |-> 1, RecreateToken |-> 1, EditTickerOwner |-> 1, MintToken |-> 1, BurnToken |-> 1, DeclareCandidacy |-> 1, Delegate |-> 1, Unbond |-> 1, MoveStake |-> 1, SetCandidateOn |-> 1, SetCandidateOff |-> 1, EditCandidate |-> 1, EditCandidateCommission |-> 1, EditCandidatePublicKey |-> 1, SetHaltBlock |-> 1, VoteCommission |-> 1, VoteUpdate |-> 1, CreateSwapPool |-> 1, AddLiquidity |-> 1, RemoveLiquidity |-> 1, SellPoolBase |-> 1, SellPoolDelta |-> 1, BuyPoolBase |-> 1, BuyPoolDelta |-> 1, SellAllPoolBase |-> 1, SellAllPoolDelta |-> 1, AddLimitOrder |-> 1, RemoveLimitOrder |-> 1, CreateTicker3 |-> 1, CreateTicker4 |-> 1, CreateTicker5 |-> 1, CreateTicker6 |-> 1, CreateTicker7to10 |-> 1, PayloadByte |-> 1, FailedTx |-> 1], priceCoin |-> "0", vals |-> <<[p |-> "v1", stake |-> 1000, accum |-> 0, absent |-> 0, bits |-> "", toDrop |-> FALSE]>>, rewardPool |-> 0, slashed |-> 0, emission |-> 1000, safeReward |-> 1, priceRec |-> [t |-> 0, r0 |-> 0, r1 |-> 0, last |-> 0, off |-> FALSE], maxGas |-> 100000, versions |-> <<>>, deleted |-> <<>>, blocked |-> <<>>],hist |-> [sc |-> "mc", accepted |-> {}, seen |-> <<>>, cValid |-> TRUE, cBase |-> 1107, cEmission |-> 1000, cfg |-> [world |-> "W1u", stakePeriod |-> 1000, expirePeriod |-> 1000, initial |-> 101, unbond |-> 531, move |-> 177, jail |-> 354, chain |-> 2, family |-> "ledger"], unit |-> 1],cnt |-> [total |-> 0, blocks |-> 0, inBlock |-> 0],sent |-> <<>>,scn |-> <<>>]),
    ([phase |-> "begun",ev |-> [h |-> 101, kind |-> "BeginBlock", sc |-> "mc", i |-> 0, check |-> -1, resp |-> [code |-> 0, gas |-> 0, tags |-> <<>>, log |-> ""], hash |-> "", panic |-> ""],st |-> [h |-> 101, bal |-> [a1 |-> ("0" :> 3), a2 |-> ("0" :> 3), a3 |-> ("0" :> 1), o1 |-> ("0" :> 100)], nonce |-> <<>>, lockUntil |-> <<>>, msig |-> <<>>, coins |-> <<>>, nextCoin |-> 1, cands |-> [v1 |-> [id |-> 1, owner |-> "o1", control |-> "o1", reward |-> "o1", status |-> 2, jailedUntil |-> 0, comm |-> 10, lastEdit |-> 0, total |-> 1000, stakes |-> <<[o |-> "o1", c |-> "0", v |-> 1000, bv |-> 1000]>>, upd |-> <<>>]], reward |-> 1, wait |-> <<>>, frozen |-> <<>>, pools |-> <<>>, orders |-> <<>>, nextOrder |-> 1, checksUsed |-> <<>>, haltVotes |-> <<>>, commVotes |-> <<>>, updVotes |-> <<>>, price |-> [Send |-> 1, MultisendBase |-> 1, MultisendDelta |-> 1, CreateMultisig |-> 1, EditMultisig |-> 1, RedeemCheck |-> 1, Lock |-> 1, LockStake |-> 1, SellBancor |-> 1, SellAllBancor |-> 1, BuyBancor |-> 1, CreateCoin |-> 1, CreateToken |-> 1, RecreateCoin |-> 1, RecreateToken |-> 1, EditTickerOwner |-> 1, MintToken |-> 1, BurnToken |-> 1, DeclareCandidacy |-> 1, Delegate |-> 1, Unbond |-> 1, MoveStake |-> 1, SetCandidateOn |-> 1, SetCandidateOff |-> 1, EditCandidate |-> 1, EditCandidateCommission |-> 1, EditCandidatePublicKey |-> 1, SetHaltBlock |-> 1, VoteCommission |-> 1, VoteUpdate |-> 1, CreateSwapPool |-> 1, AddLiquidity |-> 1, RemoveLiquidity |-> 1, SellPoolBase |-> 1, SellPoolDelta |-> 1, BuyPoolBase |-> 1, BuyPoolDelta |-> 1, SellAllPoolBase |-> 1, SellAllPoolDelta |-> 1, AddLimitOrder |-> 1, RemoveLimitOrder |-> 1, CreateTicker3 |-> 1, CreateTicker4 |-> 1, CreateTicker5 |-> 1, CreateTicker6 |-> 1, CreateTicker7to10 |-> 1, PayloadByte |-> 1, FailedTx |-> 1], priceCoin |-> "0", vals |-> <<[p |-> "v1", stake |-> 1000, accum |-> 0, absent |-> 0, bits |-> "", toDrop |-> FALSE]>>, rewardPool |-> 0, slashed |-> 0, emission |-> 1000, safeReward |-> 1, priceRec |-> [t |-> 0, r0 |-> 0, r1 |-> 0, last |-> 0, off |-> FALSE], maxGas |-> 100000, versions |-> <<>>, deleted |-> <<>>, blocked |-> <<>>],disk |-> [h |-> 100, bal |-> [a1 |-> ("0" :> 3), a2 |-> ("0" :> 3), a3 |-> ("0" :> 1), o1 |-> ("0" :> 100)], nonce |-> <<>>, lockUntil |-> <<>>, msig |-> <<>>, coins |-> <<>>, nextCoin |-> 1, cands |-> [v1 |-> [id |-> 1, owner |-> "o1", control |-> "o1", reward |-> "o1", status |-> 2, jailedUntil |-> 0, comm |-> 10, lastEdit |-> 0, total |-> 1000, stakes |-> <<[o |-> "o1", c |-> "0", v |-> 1000, bv |-> 1000]>>, upd |-> <<>>]], reward |-> 1, wait |-> <<>>, frozen |-> <<>>, pools |-> <<>>, orders |-> <<>>, nextOrder |-> 1, checksUsed |-> <<>>, haltVotes |-> <<>>, commVotes |-> <<>>, updVotes |-> <<>>, price |-> [Send |-> 1, MultisendBase |-> 1, MultisendDelta |-> 1, CreateMultisig |-> 1, EditMultisig |-> 1, RedeemCheck |-> 1, Lock |-> 1, LockStake |-> 1, SellBancor |-> 1, SellAllBancor |-> 1, BuyBancor |-> 1, CreateCoin |-> 1, CreateToken |-> 1, RecreateCoin |-> 1, RecreateToken |-> 1, EditTickerOwner |-> 1, MintToken |-> 1, BurnToken |-> 1, DeclareCandidacy |-> 1, Delegate |-> 1, Unbond |-> 1, MoveStake |-> 1, SetCandidateOn |-> 1, SetCandidateOff |-> 1, EditCandidate |-> 1, EditCandidateCommission |-> 1, EditCandidatePublicKey |-> 1, SetHaltBlock |-> 1, VoteCommission |-> 1, VoteUpdate |-> 1, CreateSwapPool |-> 1, AddLiquidity |-> 1, RemoveLiquidity |-> 1, SellPoolBase |-> 1, SellPoolDelta |-> 1, BuyPoolBase |-> 1, BuyPoolDelta |-> 1, SellAllPoolBase |-> 1, SellAllPoolDelta |-> 1, AddLimitOrder |-> 1, RemoveLimitOrder |-> 1, CreateTicker3 |-> 1, CreateTicker4 |-> 1, CreateTicker5 |-> 1, CreateTicker6 |-> 1, CreateTicker7to10 |-> 1, PayloadByte |-> 1, FailedTx |-> 1], priceCoin |-> "0", vals |-> <<[p |-> "v1", stake |-> 1000, accum |-> 0, absent |-> 0, bits |-> "", toDrop |-> FALSE]>>, rewardPool |-> 0, slashed |-> 0, emission |-> 1000, safeReward |-> 1, priceRec |-> [t |-> 0, r0 |-> 0, r1 |-> 0, last |-> 0, off |-> FALSE], maxGas |-> 100000, versions |-> <<>>, deleted |-> <<>>, blocked |-> <<>>],hist |-> [sc |-> "mc", accepted |-> {}, seen |-> <<>>, cValid |-> TRUE, cBase |-> 1107, cEmission |-> 1000, cfg |-> [world |-> "W1u", stakePeriod |-> 1000, expirePeriod |-> 1000, initial |-> 101, unbond |-> 531, move |-> 177, jail |-> 354, chain |-> 2, family |-> "ledger"], unit |-> 1],cnt |-> [total |-> 0, blocks |-> 0, inBlock |-> 0],sent |-> <<>>,scn |-> <<[op |-> "begin"]>>]),
    ([phase |-> "begun",ev |-> [h |-> 101, kind |-> "DeliverTx", sc |-> "mc", i |-> 0, check |-> 107, resp |-> [code |-> 107, gas |-> 0, tags |-> <<>>, log |-> ""], hash |-> "", panic |-> "", tx |-> [nonce |-> 1, id |-> "t1", hash |-> "t1", chain |-> 2, pol |-> "next", type |-> "Send", from |-> "a1", multi |-> FALSE, args |-> [to |-> "a2", coin |-> "0", value |-> 3], mut |-> "", sender |-> "a1", signedBy |-> <<"a1">>, intact |-> TRUE, gasCoin |-> "0", gasPrice |-> 1, bytes |-> 0, dupOf |-> "", len |-> 100]],st |-> [h |-> 101, bal |-> [a1 |-> ("0" :> 2), a2 |-> ("0" :> 3), a3 |-> ("0" :> 1), o1 |-> ("0" :> 100)], nonce |-> <<>>, lockUntil |-> <<>>, msig |-> <<>>, coins |-> <<>>, nextCoin |-> 1, cands |-> [v1 |-> [id |-> 1, owner |-> "o1", control |-> "o1", reward |-> "o1", status |-> 2, jailedUntil |-> 0, comm |-> 10, lastEdit |-> 0, total |-> 1000, stakes |-> <<[o |-> "o1", c |-> "0", v |-> 1000, bv |-> 1000]>>, upd |-> <<>>]], reward |-> 1, wait |-> <<>>, frozen |-> <<>>, pools |-> <<>>, orders |-> <<>>, nextOrder |-> 1, checksUsed |-> <<>>, haltVotes |-> <<>>, commVotes |-> <<>>, updVotes |-> <<>>, price |-> [Send |-> 1, MultisendBase |-> 1, MultisendDelta |-> 1, CreateMultisig |-> 1, EditMultisig |-> 1, RedeemCheck |-> 1, Lock |-> 1, LockStake |-> 1, SellBancor |-> 1, SellAllBancor |-> 1, BuyBancor |-> 1, CreateCoin |-> 1, CreateToken |-> 1, RecreateCoin |-> 1, RecreateToken |-> 1, EditTickerOwner |-> 1, MintToken |-> 1, BurnToken |-> 1, DeclareCandidacy |-> 1, Delegate |-> 1, Unbond |-> 1, MoveStake |-> 1, SetCandidateOn |-> 1, SetCandidateOff |-> 1, EditCandidate |-> 1, EditCandidateCommission |-> 1, EditCandidatePublicKey |-> 1, SetHaltBlock |-> 1, VoteCommission |-> 1, VoteUpdate |-> 1, CreateSwapPool |-> 1, AddLiquidity |-> 1, RemoveLiquidity |-> 1, SellPoolBase |-> 1, SellPoolDelta |-> 1, BuyPoolBase |-> 1, BuyPoolDelta |-> 1, SellAllPoolBase |-> 1, SellAllPoolDelta |-> 1, AddLimitOrder |-> 1, RemoveLimitOrder |-> 1, CreateTicker3 |-> 1, CreateTicker4 |-> 1, CreateTicker5 |-> 1, CreateTicker6 |-> 1, CreateTicker7to10 |-> 1, PayloadByte |-> 1, FailedTx |-> 1], priceCoin |-> "0", vals |-> <<[p |-> "v1", stake |-> 1000, accum |-> 0, absent |-> 0, bits |-> "", toDrop |-> FALSE]>>, rewardPool |-> 1, slashed |-> 0, emission |-> 1000, safeReward |-> 1, priceRec |-> [t |-> 0, r0 |-> 0, r1 |-> 0, last |-> 0, off |-> FALSE], maxGas |-> 100000, versions |-> <<>>, deleted |-> <<>>, blocked |-> <<>>],disk |-> [h |-> 100, bal |-> [a1 |-> ("0" :> 3), a2 |-> ("0" :> 3), a3 |-> ("0" :> 1), o1 |-> ("0" :> 100)], nonce |-> <<>>, lockUntil |-> <<>>, msig |-> <<>>, coins |-> <<>>, nextCoin |-> 1, cands |-> [v1 |-> [id |-> 1, owner |-> "o1", control |-> "o1", reward |-> "o1", status |-> 2, jailedUntil |-> 0, comm |-> 10, lastEdit |-> 0, total |-> 1000, stakes |-> <<[o |-> "o1", c |-> "0", v |-> 1000, bv |-> 1000]>>, upd |-> <<>>]], reward |-> 1, wait |-> <<>>, frozen |-> <<>>, pools |-> <<>>, orders |-> <<>>, nextOrder |-> 1, checksUsed |-> <<>>, haltVotes |-> <<>>, commVotes |-> <<>>, updVotes |-> <<>>, price |-> [Send |-> 1, MultisendBase |-> 1, MultisendDelta |-> 1, CreateMultisig |-> 1, EditMultisig |-> 1, RedeemCheck |-> 1, Lock |-> 1, LockStake |-> 1, SellBancor |-> 1, SellAllBancor |-> 1, BuyBancor |-> 1, CreateCoin |-> 1, CreateToken |-> 1, RecreateCoin |-> 1, RecreateToken |-> 1, EditTickerOwner |-> 1, MintToken |-> 1, BurnToken |-> 1, DeclareCandidacy |-> 1, Delegate |-> 1, Unbond |-> 1, MoveStake |-> 1, SetCandidateOn |-> 1, SetCandidateOff |-> 1, EditCandidate |-> 1, EditCandidateCommission |-> 1, EditCandidatePublicKey |-> 1, SetHaltBlock |-> 1, VoteCommission |-> 1, VoteUpdate |-> 1, CreateSwapPool |-> 1, AddLiquidity |-> 1, RemoveLiquidity |-> 1, SellPoolBase |-> 1, SellPoolDelta |-> 1, BuyPoolBase |-> 1, BuyPoolDelta |-> 1, SellAllPoolBase |-> 1, SellAllPoolDelta |-> 1, AddLimitOrder |-> 1, RemoveLimitOrder |-> 1, CreateTicker3 |-> 1, CreateTicker4 |-> 1, CreateTicker5 |-> 1, CreateTicker6 |-> 1, CreateTicker7to10 |-> 1, PayloadByte |-> 1, FailedTx |-> 1], priceCoin |-> "0", vals |-> <<[p |-> "v1", stake |-> 1000, accum |-> 0, absent |-> 0, bits |-> "", toDrop |-> FALSE]>>, rewardPool |-> 0, slashed |-> 0, emission |-> 1000, safeReward |-> 1, priceRec |-> [t |-> 0, r0 |-> 0, r1 |-> 0, last |-> 0, off |-> FALSE], maxGas |-> 100000, versions |-> <<>>, deleted |-> <<>>, blocked |-> <<>>],hist |-> [sc |-> "mc", accepted |-> {}, seen |-> [t1 |-> 107], cValid |-> TRUE, cBase |-> 1107, cEmission |-> 1000, cfg |-> [world |-> "W1u", stakePeriod |-> 1000, expirePeriod |-> 1000, initial |-> 101, unbond |-> 531, move |-> 177, jail |-> 354, chain |-> 2, family |-> "ledger"], unit |-> 1],cnt |-> [total |-> 1, blocks |-> 0, inBlock |-> 1],sent |-> <<[nonce |-> 1, id |-> "t1", hash |-> "t1", chain |-> 2, pol |-> "next", type |-> "Send", from |-> "a1", multi |-> FALSE, args |-> [to |-> "a2", coin |-> "0", value |-> 3], mut |-> "", sender |-> "a1", signedBy |-> <<"a1">>, intact |-> TRUE, gasCoin |-> "0", gasPrice |-> 1, bytes |-> 0, dupOf |-> "", len |-> 100]>>,scn |-> <<[op |-> "begin"], [nonce |-> "next", id |-> "t1", op |-> "tx", type |-> "Send", from |-> "a1", multi |-> FALSE, args |-> [to |-> "a2", coin |-> "0", value |-> 3], mut |-> "", sign |-> <<"a1">>, repeat |-> ""]>>]),
    ([phase |-> "begun",ev |-> [h |-> 101, kind |-> "DeliverTx", sc |-> "mc", i |-> 0, check |-> 107, resp |-> [code |-> 107, gas |-> 0, tags |-> <<>>, log |-> ""], hash |-> "", panic |-> "", tx |-> [nonce |-> 1, id |-> "t2", hash |-> "t1", chain |-> 2, pol |-> "next", type |-> "Send", from |-> "a1", multi |-> FALSE, args |-> [to |-> "a2", coin |-> "0", value |-> 3], mut |-> "", sender |-> "a1", signedBy |-> <<"a1">>, intact |-> TRUE, gasCoin |-> "0", gasPrice |-> 1, bytes |-> 0, dupOf |-> "t1", len |-> 100]],st |-> [h |-> 101, bal |-> [a1 |-> ("0" :> 1), a2 |-> ("0" :> 3), a3 |-> ("0" :> 1), o1 |-> ("0" :> 100)], nonce |-> <<>>, lockUntil |-> <<>>, msig |-> <<>>, coins |-> <<>>, nextCoin |-> 1, cands |-> [v1 |-> [id |-> 1, owner |-> "o1", control |-> "o1", reward |-> "o1", status |-> 2, jailedUntil |-> 0, comm |-> 10, lastEdit |-> 0, total |-> 1000, stakes |-> <<[o |-> "o1", c |-> "0", v |-> 1000, bv |-> 1000]>>, upd |-> <<>>]], reward |-> 1, wait |-> <<>>, frozen |-> <<>>, pools |-> <<>>, orders |-> <<>>, nextOrder |-> 1, checksUsed |-> <<>>, haltVotes |-> <<>>, commVotes |-> <<>>, updVotes |-> <<>>, price |-> [Send |-> 1, MultisendBase |-> 1, MultisendDelta |-> 1, CreateMultisig |-> 1, EditMultisig |-> 1, RedeemCheck |-> 1, Lock |-> 1, LockStake |-> 1, SellBancor |-> 1, SellAllBancor |-> 1, BuyBancor |-> 1, CreateCoin |-> 1, CreateToken |-> 1, RecreateCoin |-> 1, RecreateToken |-> 1, EditTickerOwner |-> 1, MintToken |-> 1, BurnToken |-> 1, DeclareCandidacy |-> 1, Delegate |-> 1, Unbond |-> 1, MoveStake |-> 1, SetCandidateOn |-> 1, SetCandidateOff |-> 1, EditCandidate |-> 1, EditCandidateCommission |-> 1, EditCandidatePublicKey |-> 1, SetHaltBlock |-> 1, VoteCommission |-> 1, VoteUpdate |-> 1, CreateSwapPool |-> 1, AddLiquidity |-> 1, RemoveLiquidity |-> 1, SellPoolBase |-> 1, SellPoolDelta |-> 1, BuyPoolBase |-> 1, BuyPoolDelta |-> 1, SellAllPoolBase |-> 1, SellAllPoolDelta |-> 1, AddLimitOrder |-> 1, RemoveLimitOrder |-> 1, CreateTicker3 |-> 1, CreateTicker4 |-> 1, CreateTicker5 |-> 1, CreateTicker6 |-> 1, CreateTicker7to10 |-> 1, PayloadByte |-> 1, FailedTx |-> 1], priceCoin |-> "0", vals |-> <<[p |-> "v1", stake |-> 1000, accum |-> 0, absent |-> 0, bits |-> "", toDrop |-> FALSE]>>, rewardPool |-> 2, slashed |-> 0, emission |-> 1000, safeReward |-> 1, priceRec |-> [t |-> 0, r0 |-> 0, r1 |-> 0, last |-> 0, off |-> FALSE], maxGas |-> 100000, versions |-> <<>>, deleted |-> <<>>, blocked |-> <<>>],disk |-> [h |-> 100, bal |-> [a1 |-> ("0" :> 3), a2 |-> ("0" :> 3), a3 |-> ("0" :> 1), o1 |-> ("0" :> 100)], nonce |-> <<>>, lockUntil |-> <<>>, msig |-> <<>>, coins |-> <<>>, nextCoin |-> 1, cands |-> [v1 |-> [id |-> 1, owner |-> "o1", control |-> "o1", reward |-> "o1", status |-> 2, jailedUntil |-> 0, comm |-> 10, lastEdit |-> 0, total |-> 1000, stakes |-> <<[o |-> "o1", c |-> "0", v |-> 1000, bv |-> 1000]>>, upd |-> <<>>]], reward |-> 1, wait |-> <<>>, frozen |-> <<>>, pools |-> <<>>, orders |-> <<>>, nextOrder |-> 1, checksUsed |-> <<>>, haltVotes |-> <<>>, commVotes |-> <<>>, updVotes |-> <<>>, price |-> [Send |-> 1, MultisendBase |-> 1, MultisendDelta |-> 1, CreateMultisig |-> 1, EditMultisig |-> 1, RedeemCheck |-> 1, Lock |-> 1, LockStake |-> 1, SellBancor |-> 1, SellAllBancor |-> 1, BuyBancor |-> 1, CreateCoin |-> 1, CreateToken |-> 1, RecreateCoin |-> 1, RecreateToken |-> 1, EditTickerOwner |-> 1, MintToken |-> 1, BurnToken |-> 1, DeclareCandidacy |-> 1, Delegate |-> 1, Unbond |-> 1, MoveStake |-> 1, SetCandidateOn |-> 1, SetCandidateOff |-> 1, EditCandidate |-> 1, EditCandidateCommission |-> 1, EditCandidatePublicKey |-> 1, SetHaltBlock |-> 1, VoteCommission |-> 1, VoteUpdate |-> 1, CreateSwapPool |-> 1, AddLiquidity |-> 1, RemoveLiquidity |-> 1, SellPoolBase |-> 1, SellPoolDelta |-> 1, BuyPoolBase |-> 1, BuyPoolDelta |-> 1, SellAllPoolBase |-> 1, SellAllPoolDelta |-> 1, AddLimitOrder |-> 1, RemoveLimitOrder |-> 1, CreateTicker3 |-> 1, CreateTicker4 |-> 1, CreateTicker5 |-> 1, CreateTicker6 |-> 1, CreateTicker7to10 |-> 1, PayloadByte |-> 1, FailedTx |-> 1], priceCoin |-> "0", vals |-> <<[p |-> "v1", stake |-> 1000, accum |-> 0, absent |-> 0, bits |-> "", toDrop |-> FALSE]>>, rewardPool |-> 0, slashed |-> 0, emission |-> 1000, safeReward |-> 1, priceRec |-> [t |-> 0, r0 |-> 0, r1 |-> 0, last |-> 0, off |-> FALSE], maxGas |-> 100000, versions |-> <<>>, deleted |-> <<>>, blocked |-> <<>>],hist |-> [sc |-> "mc", accepted |-> {}, seen |-> [t1 |-> 107], cValid |-> TRUE, cBase |-> 1107, cEmission |-> 1000, cfg |-> [world |-> "W1u", stakePeriod |-> 1000, expirePeriod |-> 1000, initial |-> 101, unbond |-> 531, move |-> 177, jail |-> 354, chain |-> 2, family |-> "ledger"], unit |-> 1],cnt |-> [total |-> 2, blocks |-> 0, inBlock |-> 2],sent |-> <<[nonce |-> 1, id |-> "t1", hash |-> "t1", chain |-> 2, pol |-> "next", type |-> "Send", from |-> "a1", multi |-> FALSE, args |-> [to |-> "a2", coin |-> "0", value |-> 3], mut |-> "", sender |-> "a1", signedBy |-> <<"a1">>, intact |-> TRUE, gasCoin |-> "0", gasPrice |-> 1, bytes |-> 0, dupOf |-> "", len |-> 100], [nonce |-> 1, id |-> "t2", hash |-> "t1", chain |-> 2, pol |-> "next", type |-> "Send", from |-> "a1", multi |-> FALSE, args |-> [to |-> "a2", coin |-> "0", value |-> 3], mut |-> "", sender |-> "a1", signedBy |-> <<"a1">>, intact |-> TRUE, gasCoin |-> "0", gasPrice |-> 1, bytes |-> 0, dupOf |-> "t1", len |-> 100]>>,scn |-> <<[op |-> "begin"], [nonce |-> "next", id |-> "t1", op |-> "tx", type |-> "Send", from |-> "a1", multi |-> FALSE, args |-> [to |-> "a2", coin |-> "0", value |-> 3], mut |-> "", sign |-> <<"a1">>, repeat |-> ""], [nonce |-> "next", id |-> "t2", op |-> "tx", type |-> "Send", from |-> "a1", multi |-> FALSE, args |-> [to |-> "a2", coin |-> "0", value |-> 3], mut |-> "", sign |-> <<"a1">>, repeat |-> "t1"]>>])
    >>
----


=============================================================================

---- CONFIG MCLedger_TTrace_1790033370 ----
CONSTANTS
    Strict = TRUE
    MaxBlocks = 2
    MaxTxPerBlock = 2
    MaxTxTotal = 3
    Menu = { "Send" , "Redeliver" }

INVARIANT
    _inv

CHECK_DEADLOCK
    \* CHECK_DEADLOCK off because of PROPERTY or INVARIANT above.
    FALSE

INIT
    _init

NEXT
    _next

CONSTANT
    _TETrace <- _trace

ALIAS
    _expression
=============================================================================
\* Generated on Mon Sep 21 23:29:32 UTC 2026