------------------------------- MODULE Staking -------------------------------
(***************************************************************************)
(* The staking part of the node as pure functions on the abstract state:   *)
(*   - Run of Delegate (data version 2.6), Unbond (version 3), MoveStake,  *)
(*     LockStake, SetCandidateOn, SetCandidateOff -- same order of checks   *)
(*     and effects as coreV2/transaction/{delegate_v260,unbond_v3,          *)
(*     move_stake,lock_stake,switch_candidate_status}.go;                   *)
(*   - BeginBlock: absence marks, switch-off and jail, byzantine evidence,  *)
(*     maturity of frozen funds (coreV2/minter/blockchain.go BeginBlock);   *)
(*   - EndBlock: accrual of rewards and fees, payout (PayRewardsV5Fix       *)
(*     without locked stakes), recalculation of stakes and the validator    *)
(*     set (updateValidators); Commit: emptied stakes disappear.            *)
(* Scope: stakes in the base coin, fewer than 1000 stakes per candidate,    *)
(* fewer than 100 candidates, no owner with a stake lock at a payout.       *)
(* Used by MCStaking (next-state relation, exhaustive checking of C16, C18, *)
(* C17, C05, C01, C02 in a small scope; scenario generation) and by         *)
(* Conformance (the real node's delivery must be the one predicted here).   *)
(***************************************************************************)
EXTENDS Ledger

CandidateNotFound == 403
StakeNotFound == 404
InsufficientStake == 405
IsNotOwnerOfCandidate == 406
StakeShouldBePositive == 408
InsufficientWaitList == 412
CandidateJailed == 414
TooBigStake == 415
UnbondBlocked == 416
EqualPubKey == 417

HaltAlreadyExists == 118
VoteExpired == 120
VoteAlreadyExists == 121
CandidateExists == 401
WrongCommission == 402
PublicKeyInBlockList == 410
PeriodLimitReached == 413
StakingTypes == {"Delegate", "Unbond", "MoveStake", "LockStake", "SetCandidateOn", "SetCandidateOff", "SetHaltBlock", "VoteUpdate",
                 "DeclareCandidacy", "EditCandidate", "EditCandidateCommission", "EditCandidatePublicKey"}
NewPublicKeyIsBad == 411

\* world constants: cfg is a record with chain, unbond, move, jail, stakePeriod, initial and optionally lock, window, grace, minStake
LockPeriod(cfg) == IF "lock" \in DOMAIN cfg THEN cfg.lock ELSE 34560
\* ExecutorV3.RunTx turns LockStake away, at no cost and before the chain id is looked at, up to and including this block
LockStakeFrom(cfg) == IF "lockFrom" \in DOMAIN cfg THEN cfg.lockFrom ELSE 10197360
Unavailable == 124
WindowOf(cfg) == IF "window" \in DOMAIN cfg THEN cfg.window ELSE 24
GraceLen(cfg) == IF "grace" \in DOMAIN cfg THEN cfg.grace ELSE 120
MinStakeOf(cfg, unit) == IF "minStake" \in DOMAIN cfg THEN Nat2A(cfg.minStake) ELSE Nat2A(1000) ** unit
MaxValidators == 64

\* ---------------------------------------------------------------- candidates, stakes, wait list
CandIdOf(s, p) == IF p \in DOMAIN s.cands THEN s.cands[p].id ELSE 0
PubsOfId(s, id) == {p \in DOMAIN s.cands : s.cands[p].id = id}
MinOf(S) == CHOOSE i \in S : \A j \in S : i <= j
WaitIdx(s, o, id, c) == {i \in DOMAIN s.wait : s.wait[i].o = o /\ s.wait[i].id = id /\ s.wait[i].c = c}
HasWait(s, o, id, c) == id # 0 /\ WaitIdx(s, o, id, c) # {}
FirstWait(s, o, id, c) == s.wait[MinOf(WaitIdx(s, o, id, c))].v
DelWait(s, o, id, c) == [s EXCEPT !.wait = SelectSeq(@, LAMBDA w : ~(w.o = o /\ w.id = id /\ w.c = c))]
AddWait(s, o, id, c, v) == [s EXCEPT !.wait = Append(@, [o |-> o, id |-> id, c |-> c, v |-> v])]
StakeIdx(s, p, o, c) == IF p \in DOMAIN s.cands THEN {i \in DOMAIN s.cands[p].stakes : s.cands[p].stakes[i].o = o /\ s.cands[p].stakes[i].c = c} ELSE {}
HasStake(s, p, o, c) == StakeIdx(s, p, o, c) # {}
StakeVal(s, p, o, c) == s.cands[p].stakes[MinOf(StakeIdx(s, p, o, c))].v
SubStake(s, p, o, c, v) == [s EXCEPT !.cands[p].stakes[MinOf(StakeIdx(s, p, o, c))].v = @ -- v]
AddUpd(s, p, o, c, v, bv) == [s EXCEPT !.cands[p].upd = Append(@, [o |-> o, c |-> c, v |-> v, bv |-> bv])]
TotalStakes(s) == SumOver(SeqOfRange(s.cands), LAMBDA cd : cd.total)
AddFrozen(s, due, o, p, c, v, to) == [s EXCEPT !.frozen = Append(@, [due |-> due, o |-> o, id |-> CandIdOf(s, p), key |-> p, c |-> c, v |-> v, to |-> to])]

\* what this module predicts exactly
StakingSupported(s, tx) ==
   /\ tx.type \in StakingTypes
   /\ tx.gasCoin = Base /\ s.priceCoin = Base
   /\ (tx.type \in {"Delegate", "Unbond", "MoveStake", "DeclareCandidacy"} => tx.args.coin = Base)
   /\ \A p \in DOMAIN s.cands : Len(s.cands[p].stakes) < 1000
   /\ (tx.type = "DeclareCandidacy" => Cardinality(DOMAIN s.cands) < 100 /\ s.deleted = <<>>)

FeeShort(s, tx) == Bal(s, tx.sender, Base) \prec PriceFor(s, tx)

\* ---------------------------------------------------------------- Delegate
TooBig(s, p, value) ==
   /\ Len(s.vals) >= 4
   /\ ((TotalStakes(s) ++ value) // (s.cands[p].total ++ value)) \prec Nat2A(5)
RunDelegate(s, tx) ==
   LET a == tx.args  o == tx.sender  fee == PriceFor(s, tx)
       id == CandIdOf(s, a.pub)
       hasW == HasWait(s, o, id, a.coin)
       value == IF hasW THEN a.value ++ FirstWait(s, o, id, a.coin) ELSE a.value
   IN IF ~CoinExists(s, a.coin) THEN FailWith(CoinNotExists, s, tx, o)
      ELSE IF value \preceq Zero THEN FailWith(StakeShouldBePositive, s, tx, o)
      ELSE IF a.pub \notin DOMAIN s.cands THEN FailWith(CandidateNotFound, s, tx, o)
      ELSE IF TooBig(s, a.pub, value) THEN FailWith(TooBigStake, s, tx, o)
      ELSE IF Bal(s, o, Base) \prec fee \/ Bal(s, o, a.coin) \prec a.value \/ (a.coin = Base /\ Bal(s, o, Base) \prec (a.value ++ fee))
      THEN FailWith(InsufficientFunds, s, tx, o)
      ELSE LET s1 == SubBal(Paid(s, tx), o, a.coin, a.value)
               s2 == IF hasW THEN DelWait(s1, o, id, a.coin) ELSE s1
           IN Res(OK, AddUpd(s2, a.pub, o, a.coin, value, Zero), fee)

\* ---------------------------------------------------------------- Unbond / MoveStake: the common check of what is taken from candidate p
ExitCode(s, tx, p) ==
   LET a == tx.args  o == tx.sender  id == CandIdOf(s, p)
       hasW == HasWait(s, o, id, a.coin)
       wl == IF hasW THEN FirstWait(s, o, id, a.coin) ELSE Zero
       hasS == HasStake(s, p, o, a.coin)
       positive == hasS /\ Zero \prec StakeVal(s, p, o, a.coin)
       tot == IF positive THEN wl ++ StakeVal(s, p, o, a.coin) ELSE wl
   IN IF ~CoinExists(s, a.coin) THEN CoinNotExists
      ELSE IF hasW /\ a.value \preceq wl THEN OK
      ELSE IF p \notin DOMAIN s.cands THEN CandidateNotFound
      ELSE IF ~positive /\ (wl \prec a.value \/ ~hasS) THEN (IF wl \preceq Zero THEN StakeNotFound ELSE InsufficientWaitList)
      ELSE IF tot \prec a.value THEN InsufficientStake
      ELSE OK
\* take value from the wait-list entry first, the rest from the stake; freeze it
TakeOut(s, tx, p, due, to) ==
   LET a == tx.args  o == tx.sender  id == CandIdOf(s, p)
       hasW == HasWait(s, o, id, a.coin)
       wl == IF hasW THEN FirstWait(s, o, id, a.coin) ELSE Zero
       s1 == IF ~hasW THEN SubStake(s, p, o, a.coin, a.value)
             ELSE IF a.value \prec wl THEN AddWait(DelWait(s, o, id, a.coin), o, id, a.coin, wl -- a.value)
             ELSE IF wl \prec a.value THEN SubStake(DelWait(s, o, id, a.coin), p, o, a.coin, a.value -- wl)
             ELSE DelWait(s, o, id, a.coin)
   IN AddFrozen(s1, due, o, p, a.coin, a.value, to)
RunUnbond(s, tx, h, cfg) ==
   LET o == tx.sender  fee == PriceFor(s, tx)  code == ExitCode(s, tx, tx.args.pub)
   IN IF LockOf(s, o) > h THEN FailWith(UnbondBlocked, s, tx, o)
      ELSE IF code # OK THEN FailWith(code, s, tx, o)
      ELSE IF FeeShort(s, tx) THEN FailWith(InsufficientFunds, s, tx, o)
      ELSE Res(OK, TakeOut(Paid(s, tx), tx, tx.args.pub, h + cfg.unbond, 0), fee)
RunMoveStake(s, tx, h, cfg) ==
   LET a == tx.args  o == tx.sender  fee == PriceFor(s, tx)
       code == IF a.from = a.to THEN EqualPubKey
               ELSE IF a.to \notin DOMAIN s.cands THEN CandidateNotFound
               ELSE ExitCode(s, [tx EXCEPT !.args = a @@ [pub |-> a.from]], a.from)
   IN IF code # OK THEN FailWith(code, s, tx, o)
      ELSE IF FeeShort(s, tx) THEN FailWith(InsufficientFunds, s, tx, o)
      ELSE Res(OK, TakeOut(Paid(s, tx), tx, a.from, h + cfg.move, CandIdOf(s, a.to)), fee)
RunLockStake(s, tx, h, cfg) ==
   IF FeeShort(s, tx) THEN FailWith(InsufficientFunds, s, tx, tx.sender)
   ELSE Res(OK, [Paid(s, tx) EXCEPT !.lockUntil = (tx.sender :> h + LockPeriod(cfg)) @@ @], PriceFor(s, tx))

\* ---------------------------------------------------------------- SetCandidateOn / SetCandidateOff
SwitchCode(s, tx) ==
   LET p == tx.args.pub
   IN IF p \notin DOMAIN s.cands THEN CandidateNotFound
      ELSE IF tx.sender \notin {s.cands[p].owner, s.cands[p].control} THEN IsNotOwnerOfCandidate
      ELSE OK
DropVal(s, p) == [s EXCEPT !.vals = [i \in DOMAIN @ |-> IF @[i].p = p THEN [@[i] EXCEPT !.toDrop = TRUE] ELSE @[i]]]
RunSetOn(s, tx, h) ==
   LET p == tx.args.pub  code == SwitchCode(s, tx)
   IN IF code # OK THEN FailWith(code, s, tx, tx.sender)
      ELSE IF FeeShort(s, tx) THEN FailWith(InsufficientFunds, s, tx, tx.sender)
      ELSE IF s.cands[p].jailedUntil >= h THEN FailWith(CandidateJailed, s, tx, tx.sender)
      ELSE Res(OK, [Paid(s, tx) EXCEPT !.cands[p].status = 2], PriceFor(s, tx))
RunSetOff(s, tx) ==
   LET p == tx.args.pub  code == SwitchCode(s, tx)
   IN IF code # OK THEN FailWith(code, s, tx, tx.sender)
      ELSE IF FeeShort(s, tx) THEN FailWith(InsufficientFunds, s, tx, tx.sender)
      ELSE Res(OK, DropVal([Paid(s, tx) EXCEPT !.cands[p].status = 1], p), PriceFor(s, tx))

\* ---------------------------------------------------------------- candidates: DeclareCandidacy, EditCandidate, EditCandidateCommission
\* a new candidate: owner = the declared address, reward and control address = the sender, offline, next free id, the stake a pending update
MaxId(s) == LET ids == {s.cands[p].id : p \in DOMAIN s.cands} IN IF ids = {} THEN 0 ELSE CHOOSE i \in ids : \A j \in ids : j <= i
RunDeclare(s, tx, h) ==
   LET a == tx.args  o == tx.sender  fee == PriceFor(s, tx)
   IN IF ~CoinExists(s, a.coin) THEN FailWith(CoinNotExists, s, tx, o)
      ELSE IF a.pub \in DOMAIN s.cands THEN FailWith(CandidateExists, s, tx, o)
      ELSE IF \E i \in DOMAIN s.blocked : s.blocked[i] = a.pub THEN FailWith(PublicKeyInBlockList, s, tx, o)
      ELSE IF a.comm > 100 THEN FailWith(WrongCommission, s, tx, o)
      ELSE IF Bal(s, o, a.coin) \prec a.stake \/ Bal(s, o, Base) \prec fee \/ (a.coin = Base /\ Bal(s, o, Base) \prec (a.stake ++ fee))
      THEN FailWith(InsufficientFunds, s, tx, o)
      ELSE LET s1 == SubBal(Paid(s, tx), o, a.coin, a.stake)
               cd == [id |-> MaxId(s) + 1, owner |-> a.address, control |-> o, reward |-> o, status |-> 1, jailedUntil |-> 0, comm |-> a.comm,
                      lastEdit |-> h, total |-> Zero, stakes |-> <<>>, upd |-> <<[o |-> o, c |-> a.coin, v |-> a.stake, bv |-> Zero]>>]
           IN Res(OK, [s1 EXCEPT !.cands = (a.pub :> cd) @@ @], fee)
OwnerCode(s, tx) ==
   LET p == tx.args.pub
   IN IF p \notin DOMAIN s.cands THEN CandidateNotFound
      ELSE IF tx.sender # s.cands[p].owner THEN IsNotOwnerOfCandidate
      ELSE OK
RunEditCandidate(s, tx) ==
   LET a == tx.args  code == OwnerCode(s, tx)
   IN IF code # OK THEN FailWith(code, s, tx, tx.sender)
      ELSE IF FeeShort(s, tx) THEN FailWith(InsufficientFunds, s, tx, tx.sender)
      ELSE Res(OK, [Paid(s, tx) EXCEPT !.cands[a.pub].reward = a.reward, !.cands[a.pub].owner = a.owner, !.cands[a.pub].control = a.control], PriceFor(s, tx))
\* the commission moves by at most 10 points at a time and at most once in three unbond periods
RunEditCommission(s, tx, h, cfg) ==
   LET a == tx.args  code == OwnerCode(s, tx)
   IN IF code # OK THEN FailWith(code, s, tx, tx.sender)
      ELSE LET c == s.cands[a.pub].comm
               hi == IF c + 10 > 100 THEN 100 ELSE c + 10
               lo == IF c < 10 THEN 0 ELSE c - 10
           IN IF a.comm < lo \/ a.comm > hi THEN FailWith(WrongCommission, s, tx, tx.sender)
              ELSE IF s.cands[a.pub].lastEdit + 3 * cfg.unbond > h THEN FailWith(PeriodLimitReached, s, tx, tx.sender)
              ELSE IF FeeShort(s, tx) THEN FailWith(InsufficientFunds, s, tx, tx.sender)
              ELSE Res(OK, [Paid(s, tx) EXCEPT !.cands[a.pub].comm = a.comm, !.cands[a.pub].lastEdit = h], PriceFor(s, tx))

\* a candidate changes its public key: the candidate (id, stakes, settings) and its validator entry continue under the new key, the old key
\* is blocked for ever; frozen funds and votes keep naming the key they were made for
Rename(f, old, new) == [k \in (DOMAIN f \ {old}) \cup {new} |-> IF k = new THEN f[old] ELSE f[k]]
RunEditPubKey(s, tx) ==
   LET a == tx.args  code == OwnerCode(s, tx)
   IN IF code # OK THEN FailWith(code, s, tx, tx.sender)
      ELSE IF a.pub = a.newPub THEN FailWith(NewPublicKeyIsBad, s, tx, tx.sender)
      ELSE IF a.newPub \in DOMAIN s.cands THEN FailWith(CandidateExists, s, tx, tx.sender)
      ELSE IF FeeShort(s, tx) THEN FailWith(InsufficientFunds, s, tx, tx.sender)
      ELSE IF \E i \in DOMAIN s.blocked : s.blocked[i] = a.newPub THEN FailWith(PublicKeyInBlockList, s, tx, tx.sender)
      ELSE LET s1 == Paid(s, tx)
           IN Res(OK, [s1 EXCEPT !.cands = Rename(@, a.pub, a.newPub), !.blocked = Append(@, a.pub),
                                 !.vals = [i \in DOMAIN @ |-> IF @[i].p = a.pub THEN [@[i] EXCEPT !.p = a.newPub] ELSE @[i]]], PriceFor(s, tx))

\* ---------------------------------------------------------------- governance votes: SetHaltBlock, VoteUpdate
\* a vote is [h, votes (candidate keys in order of arrival), what]; one entry per height for halts, one per (height, version) for updates
VotesField(t) == IF t = "SetHaltBlock" THEN "haltVotes" ELSE "updVotes"
VoteWhat(tx) == IF tx.type = "SetHaltBlock" THEN "halt" ELSE tx.args.version
Voted(s, tx) == \E v \in Range(s[VotesField(tx.type)]) : v.h = tx.args.height /\ tx.args.pub \in Range(v.votes)
AddVote(s, tx) ==
   LET f == VotesField(tx.type)
       idx == {i \in DOMAIN s[f] : s[f][i].h = tx.args.height /\ s[f][i].what = VoteWhat(tx)}
   IN IF idx = {} THEN [s EXCEPT ![f] = Append(@, [h |-> tx.args.height, votes |-> <<tx.args.pub>>, what |-> VoteWhat(tx)])]
      ELSE [s EXCEPT ![f][MinOf(idx)].votes = Append(@, tx.args.pub)]
RunVote(s, tx, h) ==
   LET p == tx.args.pub
       code == IF tx.args.height < h THEN VoteExpired
               ELSE IF Voted(s, tx) THEN (IF tx.type = "SetHaltBlock" THEN HaltAlreadyExists ELSE VoteAlreadyExists)
               ELSE IF p \notin DOMAIN s.cands THEN CandidateNotFound
               ELSE IF tx.sender # s.cands[p].owner THEN IsNotOwnerOfCandidate
               ELSE OK
   IN IF code # OK THEN FailWith(code, s, tx, tx.sender)
      ELSE IF FeeShort(s, tx) THEN FailWith(InsufficientFunds, s, tx, tx.sender)
      ELSE Res(OK, AddVote(Paid(s, tx), tx), PriceFor(s, tx))

\* ---------------------------------------------------------------- the executor for both families
RunTxS(s, tx, h, cfg) ==
   IF tx.type \in LedgerTypes THEN RunTx(s, tx, h, cfg.chain)
   ELSE IF ~tx.intact \/ Malleated(tx) THEN Reject(DecodeError, s)
   ELSE IF tx.type = "LockStake" /\ h <= LockStakeFrom(cfg) THEN Reject(Unavailable, s)
   ELSE IF tx.chain # cfg.chain THEN Reject(WrongChainID, s)
   ELSE IF ~CoinExists(s, tx.gasCoin) THEN Reject(CoinNotExists, s)
   ELSE IF tx.multi /\ MultisigCode(s, tx) # OK THEN Reject(MultisigCode(s, tx), s)
   ELSE IF tx.nonce # NonceOf(s, tx.sender) + 1 THEN Reject(WrongNonce, s)
   ELSE CASE tx.type = "Delegate" -> RunDelegate(s, tx)
          [] tx.type = "Unbond" -> RunUnbond(s, tx, h, cfg)
          [] tx.type = "MoveStake" -> RunMoveStake(s, tx, h, cfg)
          [] tx.type = "LockStake" -> RunLockStake(s, tx, h, cfg)
          [] tx.type = "SetCandidateOn" -> RunSetOn(s, tx, h)
          [] tx.type = "SetCandidateOff" -> RunSetOff(s, tx)
          [] tx.type \in {"SetHaltBlock", "VoteUpdate"} -> RunVote(s, tx, h)
          [] tx.type = "DeclareCandidacy" -> RunDeclare(s, tx, h)
          [] tx.type = "EditCandidate" -> RunEditCandidate(s, tx)
          [] tx.type = "EditCandidateCommission" -> RunEditCommission(s, tx, h, cfg)
          [] tx.type = "EditCandidatePublicKey" -> RunEditPubKey(s, tx)

\* ================================================================ BeginBlock
InGrace(s, h, cfg) == \/ (h >= cfg.initial - 1 /\ h <= cfg.initial - 1 + GraceLen(cfg))
                      \/ \E i \in DOMAIN s.versions : h >= s.versions[i].h /\ h <= s.versions[i].h + GraceLen(cfg)
Ones(bits) == Cardinality({j \in DOMAIN bits : bits[j] = 1})
ZeroBits(cfg) == [j \in 1..WindowOf(cfg) |-> 0]
\* one validator's mark for block h; more than half of the window missed: switched off, (outside grace) jailed
MarkOne(s, i, h, isAbsent, cfg) ==
   LET v == s.vals[i]
       b2 == [v.bits EXCEPT ![(h % WindowOf(cfg)) + 1] = IF isAbsent THEN 1 ELSE 0]
       over == isAbsent /\ Ones(b2) > WindowOf(cfg) \div 2
   IN IF ~over THEN [s EXCEPT !.vals[i].bits = b2, !.vals[i].absent = Ones(b2)]
      ELSE LET s1 == [s EXCEPT !.vals[i].bits = ZeroBits(cfg), !.vals[i].absent = 0, !.vals[i].toDrop = TRUE]
               s2 == IF v.p \in DOMAIN s.cands THEN [s1 EXCEPT !.cands[v.p].status = 1] ELSE s1
           IN IF v.p \in DOMAIN s.cands /\ ~InGrace(s, h, cfg) THEN [s2 EXCEPT !.cands[v.p].jailedUntil = h + cfg.jail] ELSE s2
RECURSIVE MarkAll(_, _, _, _, _)
MarkAll(s, i, h, absent, cfg) ==
   IF i > Len(s.vals) THEN s ELSE MarkAll(MarkOne(s, i, h, s.vals[i].p \in absent, cfg), i + 1, h, absent, cfg)

Keep95(v) == (v ** Nat2A(95)) // Nat2A(100)
Cut5(v) == v -- Keep95(v)
ValIdx(s, p) == {i \in DOMAIN s.vals : s.vals[i].p = p}
\* byzantine evidence against p: unbonding funds of its id due within the unbond period lose 5% (rounded up), every stake loses 5% and the rest is
\* unbonded, the validator loses its power and is dropped; nothing happens for a candidate that is offline, no validator, or already dropped
PunishOne(s, p, h, cfg) ==
   IF ~(p \in DOMAIN s.cands /\ s.cands[p].status = 2 /\ ValIdx(s, p) # {} /\ ~s.vals[MinOf(ValIdx(s, p))].toDrop) THEN s
   ELSE LET id == s.cands[p].id
            hit(f) == f.id = id /\ f.due >= h /\ f.due <= h + cfg.unbond
            fr2 == [i \in DOMAIN s.frozen |-> IF hit(s.frozen[i]) THEN [s.frozen[i] EXCEPT !.v = Keep95(@)] ELSE s.frozen[i]]
            cutFrozen == SumOver(SelectSeq(s.frozen, hit), LAMBDA f : Cut5(f.v))
            stakes == s.cands[p].stakes
            newFrozen == [i \in DOMAIN stakes |-> [due |-> h + cfg.unbond, o |-> stakes[i].o, id |-> id, key |-> p, c |-> stakes[i].c, v |-> Keep95(stakes[i].v), to |-> 0]]
            cutStakes == SumOver(stakes, LAMBDA x : Cut5(x.v))
            vi == MinOf(ValIdx(s, p))
        IN [s EXCEPT !.frozen = fr2 \o newFrozen,
                     !.slashed = (@ ++ cutFrozen) ++ cutStakes,
                     !.cands[p].stakes = [i \in DOMAIN stakes |-> [stakes[i] EXCEPT !.v = Zero]],
                     !.vals[vi].stake = Zero, !.vals[vi].toDrop = TRUE]
RECURSIVE PunishAll(_, _, _, _)
PunishAll(s, ev, h, cfg) == IF ev = <<>> THEN s ELSE PunishAll(PunishOne(s, Head(ev), h, cfg), Tail(ev), h, cfg)

\* frozen funds due at h: plain ones return to the balance, moving ones become a pending delegation to the target candidate
RECURSIVE MatureAll(_, _)
MatureAll(s, items) ==
   IF items = <<>> THEN s
   ELSE LET f == Head(items)
            s1 == IF f.to = 0 THEN AddBal(s, f.o, f.c, f.v)
                  ELSE LET tp == PubsOfId(s, f.to) IN IF tp = {} THEN s ELSE AddUpd(s, CHOOSE p \in tp : TRUE, f.o, f.c, f.v, Zero)
        IN MatureAll(s1, Tail(items))
MatureS(s, h) == [MatureAll(s, SelectSeq(s.frozen, LAMBDA f : f.due = h)) EXCEPT !.frozen = SelectSeq(s.frozen, LAMBDA f : f.due # h)]

BeginS(s, h, absent, evidence, cfg) ==
   LET s0 == [s EXCEPT !.h = h, !.rewardPool = Zero]
   IN MatureS(PunishAll(MarkAll(s0, 1, h, absent, cfg), evidence, h, cfg), h)

\* ================================================================ EndBlock
Powered(s, present) == SelectSeq(s.vals, LAMBDA v : v.p \in present /\ ~v.toDrop)
TotalPower(s, present) == LET t == SumOver(Powered(s, present), LAMBDA v : v.stake) IN IF t = Zero THEN One ELSE t
\* accumulated rewards of dropped validators return to the pool; present validators accrue by stake; the remainder is slashed
AccrueS(s, present, cap) ==
   LET back == SumOver(SelectSeq(s.vals, LAMBDA v : v.toDrop), LAMBDA v : v.accum)
       reward == IF s.emission \prec cap THEN s.reward ELSE Zero
       share == (reward ++ s.rewardPool) ++ back
       total == TotalPower(s, present)
       gain(v) == IF v.p \in present /\ ~v.toDrop THEN (share ** v.stake) // total ELSE Zero
       vals2 == [i \in DOMAIN s.vals |-> [s.vals[i] EXCEPT !.accum = IF s.vals[i].toDrop THEN Zero ELSE @ ++ gain(s.vals[i])]]
   IN [s EXCEPT !.vals = vals2, !.slashed = @ ++ (share -- SumOver(s.vals, gain))]

\* governance: a proposal passes with strictly more than two thirds of the power of the validators present (and not being dropped)
PowerOfKeys(s, present, keys) == SumOver(SelectSeq(Powered(s, present), LAMBDA v : v.p \in keys), LAMBDA v : v.stake)
MoreThanTwoThirds(voted, total) == (Nat2A(2) ** total) \prec (Nat2A(3) ** voted)
HaltedAt(s, h, present) ==
   \E v \in Range(s.haltVotes) : v.h = h /\ MoreThanTwoThirds(PowerOfKeys(s, present, Range(v.votes)), TotalPower(s, present))
\* the version with the largest support (the first one among equals, none without any support) wins if it has more than two thirds
UpdateWinner(s, h, present) ==
   LET vs == SelectSeq(s.updVotes, LAMBDA v : v.h = h)
       pw(i) == PowerOfKeys(s, present, Range(vs[i].votes))
       best == {i \in DOMAIN vs : (\A j \in DOMAIN vs : pw(j) \preceq pw(i)) /\ (\A j \in 1..(i - 1) : pw(j) \prec pw(i))}
   IN IF vs = <<>> THEN ""
      ELSE LET b == MinOf(best) IN IF Zero \prec pw(b) /\ MoreThanTwoThirds(pw(b), TotalPower(s, present)) THEN vs[b].what ELSE ""
ApplyUpdate(s, h, present) ==
   LET w == UpdateWinner(s, h, present) IN IF w = "" THEN s ELSE [s EXCEPT !.versions = Append(@, [name |-> w, h |-> h])]

\* payout of one validator (no owner has locked stakes): 10% DAO, 10% developers, commission, delegators by bip value; everything is delegated
PayTenth(a) == a // Nat2A(10)
RECURSIVE PayStakes(_, _, _, _, _)
PayStakes(s, p, stakes, rest, vstake) ==
   IF stakes = <<>> THEN s
   ELSE LET x == Head(stakes)
            r == IF x.bv = Zero THEN Zero ELSE (rest ** x.bv) // vstake
        IN PayStakes(IF r = Zero THEN s ELSE AddUpd(s, p, x.o, Base, r, r), p, Tail(stakes), rest, vstake)
StakePaid(stakes, rest, vstake) == SumOver(stakes, LAMBDA x : IF x.bv = Zero THEN Zero ELSE (rest ** x.bv) // vstake)
PayOne(s, i) ==
   LET v == s.vals[i]  p == v.p
   IN IF (v.toDrop /\ v.stake = Zero) \/ p \notin DOMAIN s.cands THEN s
      ELSE LET a == v.accum
               dao == PayTenth(a)  dev == PayTenth(a)
               t1 == (a -- dao) -- dev
               cut == (t1 ** Nat2A(s.cands[p].comm)) // Nat2A(100)
               rest == t1 -- cut
               s1 == AddUpd(s, p, s.cands[p].reward, Base, cut, cut)
               s2 == PayStakes(s1, p, s.cands[p].stakes, rest, v.stake)
               s3 == AddUpd(AddUpd(s2, p, "dao", Base, dao, dao), p, "dev", Base, dev, dev)
               left == (rest -- StakePaid(s.cands[p].stakes, rest, v.stake))
           IN [s3 EXCEPT !.vals[i].accum = Zero, !.slashed = @ ++ left]
RECURSIVE PayAll(_, _)
PayAll(s, i) == IF i > Len(s.vals) THEN s ELSE PayAll(PayOne(s, i), i + 1)

\* recalculation of one candidate: bip values, pending updates merged into existing stakes, the rest take free slots
RECURSIVE MergeUpd(_, _)
MergeUpd(stakes, upd) ==     \* returns <<stakes, leftover updates>>
   IF upd = <<>> THEN <<stakes, <<>>>>
   ELSE LET u == Head(upd)
            idx == {i \in DOMAIN stakes : stakes[i].o = u.o /\ stakes[i].c = u.c}
            r == MergeUpd(IF idx = {} THEN stakes ELSE [stakes EXCEPT ![MinOf(idx)].v = @ ++ u.v], Tail(upd))
        IN IF idx = {} THEN <<r[1], <<u>> \o r[2]>> ELSE r
RECURSIVE Combine(_)
Combine(upd) ==              \* zero updates dropped, same owner and coin merged
   IF upd = <<>> THEN <<>>
   ELSE LET u == Head(upd)
            rest == Combine(SelectSeq(Tail(upd), LAMBDA x : ~(x.o = u.o /\ x.c = u.c)))
            sum == SumOver(SelectSeq(upd, LAMBDA x : x.o = u.o /\ x.c = u.c), LAMBDA x : x.v)
        IN IF sum = Zero THEN rest ELSE <<[u EXCEPT !.v = sum]>> \o rest
WithBv(sq) == [i \in DOMAIN sq |-> [sq[i] EXCEPT !.bv = sq[i].v]]
RecalcCand(cd) ==
   LET m == MergeUpd(cd.stakes, cd.upd)
       stakes2 == WithBv(m[1]) \o WithBv(Combine(m[2]))
   IN [cd EXCEPT !.stakes = stakes2, !.upd = <<>>, !.total = SumOver(stakes2, LAMBDA x : x.bv)]
RecalcS(s) == [s EXCEPT !.cands = [p \in DOMAIN @ |-> RecalcCand(@[p])]]

\* the new validator set: online candidates with at least the minimum stake, by total stake (ties: higher id first), at most 64
EligibleS(s, cfg, unit) == {p \in DOMAIN s.cands : s.cands[p].status = 2 /\ MinStakeOf(cfg, unit) \preceq s.cands[p].total}
Before(s, p, q) == s.cands[q].total \prec s.cands[p].total \/ (s.cands[p].total = s.cands[q].total /\ s.cands[p].id > s.cands[q].id)
Ranked(s, S) == SortSeq(SetToSeq(S), LAMBDA p, q : Before(s, p, q))
NewVals(s, cfg, unit) ==
   LET r == Ranked(s, EligibleS(s, cfg, unit))
       chosen == IF Len(r) > MaxValidators THEN SubSeq(r, 1, MaxValidators) ELSE r
       old(p) == IF ValIdx(s, p) = {} THEN [accum |-> Zero, bits |-> ZeroBits(cfg), absent |-> 0]
                 ELSE LET v == s.vals[MinOf(ValIdx(s, p))] IN [accum |-> v.accum, bits |-> v.bits, absent |-> v.absent]
   IN [i \in DOMAIN chosen |-> [p |-> chosen[i], stake |-> s.cands[chosen[i]].total, accum |-> old(chosen[i]).accum,
                                absent |-> old(chosen[i]).absent, bits |-> old(chosen[i]).bits, toDrop |-> FALSE]]
\* a validator that leaves the set takes nothing with it: its accumulated reward goes to total slashed
UpdateVals(s, cfg, unit) ==
   LET s1 == RecalcS(s)
       nv == NewVals(s1, cfg, unit)
       stay == {nv[i].p : i \in DOMAIN nv}
       lost == SumOver(SelectSeq(s1.vals, LAMBDA v : v.p \notin stay), LAMBDA v : v.accum)
   IN [s1 EXCEPT !.vals = nv, !.slashed = @ ++ lost]

IsPayoutH(h, cfg) == h % cfg.stakePeriod = 0
\* limit orders expire in the middle block of a stake period: every order that was committed at least expirePeriod blocks ago and is still
\* open returns what is left of its escrow to its owner (oldOrders: the orders as of the last commit, the node reads them from the committed tree)
RECURSIVE RefundAll(_, _)
RefundAll(s, ids) == IF ids = {} THEN s
                     ELSE LET id == CHOOSE x \in ids : TRUE
                              o == s.orders[id]
                          IN RefundAll(AddBal([s EXCEPT !.orders = [k \in DOMAIN @ \ {id} |-> @[k]]], o.owner, o.sellCoin, o.sell), ids \ {id})
ExpireS(s, oldOrders, h, cfg) ==
   IF h > cfg.expirePeriod /\ h % cfg.stakePeriod = cfg.stakePeriod \div 2
   THEN RefundAll(s, {id \in DOMAIN oldOrders \cap DOMAIN s.orders : oldOrders[id].h <= h - cfg.expirePeriod})
   ELSE s
\* keyChanged: a candidate changed its public key in this block (the set is then updated as well)
EndS(s0, h, present, cfg, unit, cap, keyChanged, oldOrders) ==
   LET s == ExpireS(s0, oldOrders, h, cfg)
       dropped == keyChanged \/ \E i \in DOMAIN s.vals : s.vals[i].toDrop
       s1 == AccrueS(s, present, cap)
       s2 == IF IsPayoutH(h, cfg) THEN PayAll(s1, 1) ELSE s1
       s3 == IF s.emission \prec cap THEN [s2 EXCEPT !.emission = @ ++ s.safeReward] ELSE s2
       burn == s.safeReward -- s.reward
       s4 == IF s.emission \prec cap /\ Zero \prec burn THEN AddBal(s3, "zero", Base, burn) ELSE s3
       s6 == [s4 EXCEPT !.versions = ApplyUpdate(s, h, present).versions]     \* votes are counted with the powers EndBlock starts with
   IN IF IsPayoutH(h, cfg) \/ dropped THEN UpdateVals(s6, cfg, unit) ELSE s6

\* ================================================================ Commit: emptied stakes free their slots
\* Commit: emptied stakes free their slots; the votes counted at this height are forgotten
CommitS(s) == [s EXCEPT !.cands = [p \in DOMAIN @ |-> [@[p] EXCEPT !.stakes = SelectSeq(@, LAMBDA x : x.v # Zero)]],
                        !.updVotes = SelectSeq(@, LAMBDA v : v.h # s.h),
                        !.haltVotes = SelectSeq(@, LAMBDA v : v.h # s.h)]
=============================================================================
