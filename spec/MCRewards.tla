------------------------------- MODULE MCRewards -------------------------------
(***************************************************************************)
(* Model of the reward schedule (C28): a BIP/USDT pool price that trades    *)
(* move between blocks, the price record, the reward pair                   *)
(* (reward, safeReward) of the state, the emission counter and the cap.     *)
(* Block time is abstracted to (hour class, more than 3h since the last     *)
(* update or not); the fourth-root formula to pc(p) = PcOf[p] (any          *)
(* monotone table).  The rule is Rewards!RewardRule, the text that the      *)
(* trace specification evaluates on the real node.                          *)
(* Used for exhaustive model checking (MCRewards.cfg) and for scenario      *)
(* generation (gen/MCRewardsGen.cfg: SCN lines replayed by the harness).    *)
(***************************************************************************)
EXTENDS Rewards, Integers, Sequences, FiniteSets, TLC, Json

CONSTANTS Prices,        \* abstract pool prices (1..N), price p means p * 10% of the reference
          PcOf,          \* price -> price-derived reward
          Step,          \* recovery step
          Hours,         \* block-time hours offered to BeginBlock
          Cap, Period, MaxBlocks, Emission0

VARIABLES h, phase, price, rec, reward, safe, emission, burned, updates, scn
rvars == <<h, phase, price, rec, reward, safe, emission, burned, updates, scn>>

PcLinear == [p \in 1..20 |-> 3 * p]       \* stand-in for 350 * p^(1/4): any monotone table

Init ==
   /\ h = 0 /\ phase = "idle"
   /\ price \in Prices
   /\ rec = [p |-> price, last |-> PcOf[price], off |-> FALSE]
   /\ reward = PcOf[price] /\ safe = PcOf[price]
   /\ emission = Emission0 /\ burned = 0 /\ updates = 0
   /\ scn = <<[op |-> "price", p |-> price]>>

\* trades between blocks move the pool price
Trade(p) ==
   /\ phase = "idle" /\ p # price
   /\ scn[Len(scn)].op # "trade"                 \* consecutive trades are one trade
   /\ price' = p
   /\ scn' = Append(scn, [op |-> "trade", p |-> p])
   /\ UNCHANGED <<h, phase, rec, reward, safe, emission, burned, updates>>

Pct(new, old) == (100 * new) \div old

Begin(hour, over3h) ==
   /\ phase = "idle" /\ h < MaxBlocks
   /\ h' = h + 1
   /\ IF ~(emission \prec Cap)
      THEN /\ reward' = 0 /\ safe' = 0 /\ UNCHANGED <<rec, updates>>
      ELSE IF RecomputeAt(h + 1, Period, hour, over3h, emission, Cap)
      THEN LET r == RewardRule(rec, PcOf[price], Pct(price, rec.p), Step)
           IN /\ rec' = [p |-> price, last |-> r.last, off |-> r.off]
              /\ reward' = r.reward /\ safe' = PcOf[price]
              /\ updates' = updates + 1
      ELSE UNCHANGED <<rec, reward, safe, updates>>
   /\ phase' = "begun"
   /\ scn' = Append(scn, [op |-> "block", hour |-> hour, over3h |-> over3h])
   /\ UNCHANGED <<price, emission, burned>>

End ==
   /\ phase = "begun"
   /\ emission' = emission + MintedAt(emission, Cap, safe)
   /\ burned' = burned + BurnedAt(emission, Cap, reward, safe)
   /\ phase' = "idle"
   /\ UNCHANGED <<h, price, rec, reward, safe, updates, scn>>

Next == (\E p \in Prices : Trade(p)) \/ (\E hour \in Hours, o \in BOOLEAN : Begin(hour, o)) \/ End
Spec == Init /\ [][Next]_rvars

\* ---------------------------------------------------------------- properties of the design
NeverAboveDerived == reward \preceq safe
OffMeansWithheld == rec.off => reward \prec PcOf[rec.p] \/ reward = 0
NotOffMeansFull == (~rec.off /\ emission \prec Cap) => reward = safe
\* the emission counter only moves by the minted amount and stops at the cap (it may overshoot by less than one reward)
CapHolds == [][(~(emission \prec Cap)) => emission' = emission]_rvars
MintIsSafe == [][emission' # emission => emission' = emission + safe /\ emission \prec Cap]_rvars
\* updates happen only on the first block of a period in the 12..14 window
OnlyThen == [][rec' # rec => (h' % Period = 1)]_rvars
\* a recovering reward never decreases while the price does not fall
Recovering == [][(rec.off /\ rec'.off /\ rec' # rec /\ rec'.last # 0) => rec.last \prec rec'.last]_rvars
\* the rule as the property states it, independently of the text of RewardRule:
\* a change of -10% or worse, rounded down to a whole percent, means 100 * new < 91 * old
Fell == 100 * price < 91 * rec.p
Min2(a, b) == IF a <= b THEN a ELSE b
DropRule == [][(rec' # rec /\ Fell) => (reward' = 0 /\ rec'.off /\ safe' = PcOf[price])]_rvars
KeepRule == [][(rec' # rec /\ ~Fell /\ ~rec.off) => (reward' = PcOf[price] /\ ~rec'.off /\ safe' = PcOf[price])]_rvars
RecoverRule == [][(rec' # rec /\ ~Fell /\ rec.off) =>
                     /\ reward' = Min2(PcOf[price], rec.last + Step)
                     /\ rec'.off <=> (rec.last + Step < PcOf[price])
                     /\ safe' = PcOf[price]]_rvars
TypeOK == /\ reward >= 0 /\ safe >= 0 /\ burned >= 0 /\ emission >= Emission0

View == <<h, phase, price, rec, reward, safe, emission, burned, updates, scn[Len(scn)].op = "trade">>
Dump == (phase = "idle" /\ h = MaxBlocks /\ scn[Len(scn)].op # "trade") => PrintT("SCN " \o ToJson(scn))
=============================================================================
