------------------------------- MODULE Rewards -------------------------------
(***************************************************************************)
(* The block-reward price rule (coreV2/minter/blockchain.go BeginBlock and  *)
(* coreV2/appdb/appdb.go UpdatePriceFix) as pure functions over module      *)
(* Amount, so that the same text is model-checked over small integers       *)
(* (MCRewards.tla) and evaluated on traces of the real node over real pip   *)
(* values (PropsRewards.tla).                                               *)
(*                                                                         *)
(*   pc       price-derived reward 350 * p^(1/4) BIP of the update          *)
(*   pct      floor(100 * newPrice / oldPrice): the price change is         *)
(*            pct - 100 percent, rounded down to a whole percent            *)
(*   old      [last, off] of the previous price record                      *)
(*   step     recovery step (10 BIP)                                        *)
(***************************************************************************)
EXTENDS Amount, Integers

\* when is the reward recomputed
RecomputeAt(h, period, hour, elapsedOver3h, emission, cap) ==
   /\ emission \prec cap
   /\ h % period = 1
   /\ hour >= 12 /\ hour <= 14
   /\ elapsedOver3h

\* the rule itself: [reward, last, off] after an update
RewardRule(old, pc, pct, step) ==
   IF pct \preceq Nat2A(90)
   THEN [reward |-> Zero, last |-> Zero, off |-> TRUE]                    \* -10% or worse: validators' share drops to zero
   ELSE IF old.off /\ old.last \prec pc
        THEN LET l2 == old.last ++ step
             IN IF pc \preceq l2 THEN [reward |-> pc, last |-> pc, off |-> FALSE]      \* recovered
                ELSE [reward |-> l2, last |-> l2, off |-> TRUE]                       \* recovering: +10 BIP per update
        ELSE [reward |-> pc, last |-> pc, off |-> FALSE]

\* what one block adds to the emission counter, and what of it is burned (credited to the zero address)
MintedAt(emission, cap, safeReward) == IF emission \prec cap THEN safeReward ELSE Zero
BurnedAt(emission, cap, reward, safeReward) == IF emission \prec cap /\ reward \prec safeReward THEN safeReward -- reward ELSE Zero
=============================================================================
