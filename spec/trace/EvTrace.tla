------------------------------- MODULE EvTrace -------------------------------
(***************************************************************************)
(* Trace specification of the events store (C24): replays a trace of the    *)
(* real store recorded by harness/cmd/evdriver.  The trace spec keeps the   *)
(* observable part of EventsStore.tla (pending, stored) and requires every  *)
(* recorded load to return exactly what was added for that height.          *)
(***************************************************************************)
EXTENDS Props

CONSTANT TraceFile
VARIABLES l, pending, stored
tvars == <<st, disk, ev, hist, l, pending, stored>>

Trace == ndJsonDeserialize(TraceFile)
N == Len(Trace)
R(i) == Trace[i]

Init0 ==
   /\ l = 1
   /\ TLCSet(CovReg, <<>>)
   /\ TLCSet(8, 1)
   /\ ev = R(1) /\ st = <<>> /\ disk = <<>> /\ hist = <<>>
   /\ pending = <<>> /\ stored = <<>>

Rec == R(l + 1)
WhereE == [sc |-> Rec.sc, i |-> Rec.i, kind |-> Rec.kind, h |-> Rec.h]
C24_NoPanic == Clause("C24", "StoreDoesNotPanic", TRUE, Rec.panic = "", [at |-> WhereE, panic |-> Rec.panic, keys |-> Rec.keys, keyIdsExhausted |-> (Rec.keys >= 65535)])
C24_Faithful ==
   Clause("C24", "LoadReturnsWhatWasAdded", Rec.kind = "EvLoad" /\ Rec.panic = "" /\ Rec.h \in DOMAIN stored,
          Rec.events = stored[Rec.h],
          [at |-> WhereE, loaded |-> Rec.events, added |-> stored[Rec.h], keys |-> Rec.keys, keyIdsExhausted |-> (Rec.keys >= 65535),
           firstDiff |-> (IF Len(Rec.events) # Len(stored[Rec.h]) THEN 0
                          ELSE LET ds == {i \in DOMAIN Rec.events : Rec.events[i] # stored[Rec.h][i]} IN IF ds = {} THEN -1 ELSE CHOOSE i \in ds : \A j \in ds : i <= j)])

Step ==
   /\ l < N
   /\ l' = l + 1
   /\ TLCSet(8, l + 1)
   /\ ev' = Rec
   /\ C24_NoPanic /\ C24_Faithful
   /\ pending' = CASE Rec.kind = "EvAdd" /\ Rec.panic = "" -> Append(pending, Rec.ev)
                   [] Rec.kind \in {"EvCommit", "EvRestart", "EvInit", "EvBulk"} -> <<>>
                   [] OTHER -> pending
   /\ stored' = CASE Rec.kind = "EvCommit" /\ Rec.panic = "" -> (Rec.h :> pending) @@ stored
                  [] Rec.kind = "EvInit" -> <<>>
                  [] OTHER -> stored
   /\ UNCHANGED <<st, disk, hist>>

EvSpec == Init0 /\ [][Step]_tvars
Done == /\ TLCGet(8) = N
        /\ PrintT("COV " \o ToJson(TLCGet(CovReg)))
        /\ PrintT("LINES " \o ToString(N))
=============================================================================
