------------------------------- MODULE BcTrace -------------------------------
(* Trace specification for C12: every recorded call of the bancor functions is checked against the contract of Bancor.tla. *)
EXTENDS Props, Bancor

CONSTANT TraceFile
VARIABLE l
tvars == <<st, disk, ev, hist, l>>
Trace == ndJsonDeserialize(TraceFile)
N == Len(Trace)
Rec == Trace[l + 1]

Init0 == /\ l = 1 /\ TLCSet(CovReg, <<>>) /\ TLCSet(8, 1)
         /\ ev = Trace[1] /\ st = <<>> /\ disk = <<>> /\ hist = <<>>

IsCall(fn) == Rec.kind = "Bancor" /\ Rec.fn = fn /\ Rec.panic = ""
WhereB == [sc |-> Rec.sc, i |-> Rec.i, fn |-> Rec.fn, s |-> Rec.s, r |-> Rec.r, crr |-> Rec.crr, x |-> Rec.x, y |-> Rec.y]
C12_NoPanic == Clause("C12", "NoPanic", Rec.kind = "Bancor", Rec.panic = "", [at |-> WhereB, panic |-> Rec.panic])
C12_NonNegative == Clause("C12", "NeverNegative", Rec.kind = "Bancor" /\ Rec.panic = "" /\ Rec.fn # "RT", Zero \preceq Rec.y, [at |-> WhereB])
C12_PR == Clause("C12", "PurchaseReturnFollowsFormula", IsCall("PR"), PurchaseReturnOk(Rec.s, Rec.r, Rec.crr, Rec.x, Rec.y), [at |-> WhereB])
C12_PA == Clause("C12", "PurchaseAmountFollowsFormula", IsCall("PA"), PurchaseAmountOk(Rec.s, Rec.r, Rec.crr, Rec.x, Rec.y), [at |-> WhereB])
\* the node's domain: a sale leaves at least the minimum reserve, or takes the whole supply
InDomainSR == Rec.x = Rec.s \/ (Rec.y \preceq Rec.r /\ MinReserve \preceq (Rec.r -- Rec.y))
InDomainSA == MinReserve \preceq (Rec.r -- Rec.x)
C12_Within == Clause("C12", "SaleNeverExceedsReserve", IsCall("SR"), Rec.y \preceq Rec.r, [at |-> WhereB])
C12_SR == Clause("C12", "SaleReturnFollowsFormulaWithinReserve", IsCall("SR") /\ InDomainSR, SaleReturnOk(Rec.s, Rec.r, Rec.crr, Rec.x, Rec.y), [at |-> WhereB])
C12_SA == Clause("C12", "SaleAmountFollowsFormula", IsCall("SA") /\ InDomainSA, SaleAmountOk(Rec.s, Rec.r, Rec.crr, Rec.x, Rec.y), [at |-> WhereB])
C12_All == Clause("C12", "SellingEverythingReturnsTheReserve", IsCall("SR") /\ Rec.x = Rec.s, Rec.y = Rec.r, [at |-> WhereB])
C12_Mono == Clause("C12", "ResultDoesNotDecreaseWithAmount", Rec.kind = "Bancor" /\ Rec.panic = "" /\ Rec.fn # "RT" /\ Rec.prevX # ""
                                                                 /\ (Rec.fn = "SA" => InDomainSA) /\ (Rec.fn = "SR" => InDomainSR),
                   Rec.prevX \preceq Rec.x => Rec.prevY \preceq Rec.y, [at |-> WhereB, prevX |-> Rec.prevX, prevY |-> Rec.prevY])
\* buy for x, sell what was bought: back <= x * (1 + RtEps) + 1
\* buy for x, sell what was bought: back <= x + 2 * Tol (one tolerance per call, on the scale of the reserve after the purchase)
C12_RoundTrip == Clause("C12", "BuyThenSellNeverProfits", IsCall("RT") /\ Rec.z # "",
                        Rec.z \preceq (Rec.x ++ (Nat2A(2) ** Tol(Rec.x, Rec.r ++ Rec.x))), [at |-> WhereB, back |-> Rec.z])

Step ==
   /\ l < N /\ l' = l + 1 /\ TLCSet(8, l + 1) /\ ev' = Rec
   /\ C12_NoPanic /\ C12_NonNegative /\ C12_PR /\ C12_PA /\ C12_Within /\ C12_SR /\ C12_SA /\ C12_All /\ C12_Mono /\ C12_RoundTrip
   /\ UNCHANGED <<st, disk, hist>>
BcSpec == Init0 /\ [][Step]_tvars
Done == /\ TLCGet(8) = N /\ PrintT("COV " \o ToJson(TLCGet(CovReg))) /\ PrintT("LINES " \o ToString(N))
=============================================================================
