---- MODULE MCTrace ----
EXTENDS Trace, IOUtils
TraceFileName == IF "TRACE" \in DOMAIN IOEnv THEN IOEnv.TRACE ELSE "trace.ndjson"
====
