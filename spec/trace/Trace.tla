------------------------------- MODULE Trace -------------------------------
(***************************************************************************)
(* Trace specification: replays an ndjson trace recorded from the real     *)
(* node (harness/cmd/driver).  Every line carries the full projected       *)
(* abstract state, so each line has exactly one successor: validation is   *)
(* linear.  At every step all property clauses are evaluated on            *)
(* (st, st') = (state before the call, state after the call).              *)
(* Many scenarios are concatenated in one file; a line of kind "Init"      *)
(* starts the next scenario (TraceReset).                                  *)
(***************************************************************************)
EXTENDS AllProps

CONSTANT TraceFile
VARIABLE l
vars == <<st, disk, ev, hist, l>>

Trace == ndJsonDeserialize(TraceFile)
N == Len(Trace)

Rec(i) == Trace[i]
HasSt(r) == "st" \in DOMAIN r
HasDisk(r) == "disk" \in DOMAIN r

EmptyHist(r) == [accepted |-> {}, seen |-> <<>>, cValid |-> FALSE, cBase |-> Zero, cEmission |-> Zero,
                 cfg |-> r.cfg, unit |-> r.unit, sc |-> r.sc, present |-> {}, cap |-> "10000000000000000000000000000", crashed |-> FALSE, restarts |-> 0, lastFault |-> "", synced |-> FALSE, imported |-> FALSE, diverged |-> FALSE, folded |-> FALSE]
InitHist(r) == IF HasDisk(r) /\ HasSt(r)
               THEN [EmptyHist(r) EXCEPT !.cValid = TRUE, !.cBase = BaseTotal(r.disk), !.cEmission = r.st.emission]
               ELSE EmptyHist(r)

TraceInit ==
   /\ l = 1
   /\ TLCSet(CovReg, <<>>)
   /\ TLCSet(8, 1)
   /\ ev = Rec(1)
   /\ st = Rec(1).st
   /\ disk = Rec(1).disk
   /\ hist = InitHist(Rec(1))

\* history update for the step just taken
NextHist(r) ==
   IF r.kind = "DeliverTx" /\ r.panic = ""
   THEN [hist EXCEPT !.accepted = IF r.resp.code = 0 THEN @ \cup {r.tx.hash} ELSE @,
                     !.seen = IF r.tx.hash \in DOMAIN @ THEN @ ELSE @ @@ (r.tx.hash :> r.resp.code)]
   ELSE IF r.kind \in {"Commit", "Recovered", "Jump"} /\ r.panic = "" /\ HasDisk(r) /\ HasSt(r)
   THEN [hist EXCEPT !.cValid = TRUE, !.cBase = BaseTotal(r.disk), !.cEmission = r.st.emission]
   ELSE IF r.kind = "Crash" THEN [hist EXCEPT !.crashed = TRUE, !.cValid = FALSE, !.lastFault = IF "fault" \in DOMAIN r THEN r.fault ELSE "?"]
   ELSE IF r.kind = "Restart" THEN [hist EXCEPT !.restarts = @ + 1]
   ELSE IF r.kind = "BeginBlock" /\ "begin" \in DOMAIN r THEN [hist EXCEPT !.present = Range(r.begin.present)]
   ELSE IF r.kind = "Restored" THEN [hist EXCEPT !.synced = TRUE, !.cValid = FALSE]
   ELSE IF r.kind = "Imported" THEN [hist EXCEPT !.imported = TRUE, !.cValid = FALSE, !.folded = ("rt" \in DOMAIN r /\ r.rt.folded)]
   ELSE hist

TraceStep ==
   /\ l < N
   /\ Rec(l + 1).kind # "Init"
   /\ l' = l + 1
   /\ TLCSet(8, l + 1)
   /\ ev' = Rec(l + 1)
   /\ st' = IF HasSt(Rec(l + 1)) THEN Rec(l + 1).st ELSE st
   /\ disk' = IF HasDisk(Rec(l + 1)) THEN Rec(l + 1).disk ELSE disk
   /\ IF HasSt(Rec(l + 1)) /\ Rec(l + 1).kind # "Imported" THEN StepProps ELSE LeanProps      \* lean records carry digests only: state-based clauses need the state;
                                                                                               \* an "Imported" record re-bases the trace on the state of the new chain
   /\ hist' = LET h1 == NextHist(Rec(l + 1))  r == Rec(l + 1) IN
              IF "obs" \in DOMAIN r /\ "ideal" \in DOMAIN r
                 /\ \E f \in ConsFields \cap DOMAIN r.obs : f \in DOMAIN r.ideal /\ r.obs[f] # r.ideal[f]
              THEN [h1 EXCEPT !.diverged = TRUE] ELSE h1

TraceReset ==
   /\ l < N
   /\ Rec(l + 1).kind = "Init"
   /\ l' = l + 1
   /\ TLCSet(8, l + 1)
   /\ ev' = Rec(l + 1)
   /\ st' = IF HasSt(Rec(l + 1)) THEN Rec(l + 1).st ELSE st
   /\ disk' = IF HasDisk(Rec(l + 1)) THEN Rec(l + 1).disk ELSE disk
   /\ C07_Step
   /\ hist' = InitHist(Rec(l + 1))

TraceNext == TraceStep \/ TraceReset
TraceSpec == TraceInit /\ [][TraceNext]_vars

\* acceptance: every line was consumed; prints the per-clause antecedent counters (vacuity guard)
Done == /\ TLCGet(8) = N
        /\ PrintT("COV " \o ToJson(TLCGet(CovReg)))
        /\ PrintT("LINES " \o ToString(N))
=============================================================================
