---- MODULE MCBcTrace ----
EXTENDS BcTrace, IOUtils
TraceFileName == IF "TRACE" \in DOMAIN IOEnv THEN IOEnv.TRACE ELSE "trace.ndjson"
====
