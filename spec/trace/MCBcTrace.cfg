SPECIFICATION BcSpec
CONSTANT Strict = FALSE
CONSTANT TraceFile <- TraceFileName
POSTCONDITION Done
CHECK_DEADLOCK FALSE
