------------------------------- MODULE MCPools -------------------------------
(***************************************************************************)
(* Model of one swap pool (coins c0, c1) with two liquidity providers /      *)
(* traders: creation, adding and removing liquidity, selling and buying in   *)
(* both directions -- the transactions CreateSwapPool, AddLiquidity,         *)
(* RemoveLiquidity, SellSwapPool, BuySwapPool without limit orders.  The     *)
(* arithmetic is module Pools (the node's integer formulas).  TLC checks the *)
(* clauses of C13 / C15 that concern the pool itself on every behaviour, and *)
(* the generation config prints behaviours for replay in the real node.      *)
(***************************************************************************)
EXTENDS Pools, Integers, Sequences, FiniteSets, TLC, Json

CONSTANTS Users, MinLiq, CreateAmounts, TradeAmounts, LiqAmounts, MaxSteps, MaxReserve

VARIABLES r0, r1, sup, lp, last, steps, scn
pvars == <<r0, r1, sup, lp, last, steps, scn>>

NoPool == sup = Zero
Init ==
   /\ r0 = Zero /\ r1 = Zero /\ sup = Zero
   /\ lp = [u \in Users \cup {"zero"} |-> Zero]
   /\ last = [op |-> "init"]
   /\ steps = 0 /\ scn = <<>>

Small == r0 \preceq MaxReserve /\ r1 \preceq MaxReserve
Step(rec) == /\ steps < MaxSteps /\ steps' = steps + 1 /\ scn' = Append(scn, rec)

Create(u, a0, a1) ==
   /\ NoPool /\ MinLiq \prec StartingSupply(a0, a1)
   /\ r0' = a0 /\ r1' = a1
   /\ sup' = StartingSupply(a0, a1)
   /\ lp' = [lp EXCEPT ![u] = StartingSupply(a0, a1) -- MinLiq, !["zero"] = MinLiq]
   /\ last' = [op |-> "create", a0 |-> a0, a1 |-> a1]
   /\ Step([op |-> "create", u |-> u, a0 |-> a0, a1 |-> a1])

\* dir = 0: sell c0 for c1; the burned part of the payment never reaches the pool
Sell(u, dir, in) ==
   /\ ~NoPool
   /\ LET rIn == IF dir = 0 THEN r0 ELSE r1
          rOut == IF dir = 0 THEN r1 ELSE r0
          t == SellTrade(rIn, rOut, in)
      IN /\ t.ok
         /\ r0' = IF dir = 0 THEN r0 ++ t.net ELSE r0 -- t.out
         /\ r1' = IF dir = 0 THEN r1 -- t.out ELSE r1 ++ t.net
         /\ last' = [op |-> "sell", dir |-> dir, in |-> in, out |-> t.out, burned |-> t.burned]
   /\ Step([op |-> "sell", u |-> u, dir |-> dir, in |-> in])
   /\ UNCHANGED <<sup, lp>>

Buy(u, dir, out) ==
   /\ ~NoPool
   /\ LET rIn == IF dir = 0 THEN r0 ELSE r1
          rOut == IF dir = 0 THEN r1 ELSE r0
          t == BuyTrade(rIn, rOut, out)
      IN /\ t.ok
         /\ r0' = IF dir = 0 THEN r0 ++ t.net ELSE r0 -- out
         /\ r1' = IF dir = 0 THEN r1 -- out ELSE r1 ++ t.net
         /\ last' = [op |-> "buy", dir |-> dir, in |-> t.pay, out |-> out, burned |-> t.burned]
   /\ Step([op |-> "buy", u |-> u, dir |-> dir, out |-> out])
   /\ UNCHANGED <<sup, lp>>

Add(u, a0) ==
   /\ ~NoPool
   /\ LET m == MintFor(r0, r1, sup, a0)
      IN /\ Zero \prec m.liq
         /\ r0' = r0 ++ a0 /\ r1' = r1 ++ m.a1
         /\ sup' = sup ++ m.liq
         /\ lp' = [lp EXCEPT ![u] = @ ++ m.liq]
         /\ last' = [op |-> "add", a0 |-> a0, a1 |-> m.a1, liq |-> m.liq]
   /\ Step([op |-> "add", u |-> u, a0 |-> a0])

Remove(u, liq) ==
   /\ ~NoPool /\ liq \preceq lp[u] /\ Zero \prec liq
   /\ LET a == AmountsFor(r0, r1, sup, liq)
      IN /\ r0' = r0 -- a.a0 /\ r1' = r1 -- a.a1
         /\ sup' = sup -- liq
         /\ lp' = [lp EXCEPT ![u] = @ -- liq]
         /\ last' = [op |-> "remove", liq |-> liq, a0 |-> a.a0, a1 |-> a.a1, r0 |-> r0, r1 |-> r1, sup |-> sup]
   /\ Step([op |-> "remove", u |-> u, liq |-> liq])

Next ==
   /\ Small
   /\ \/ \E u \in Users, a0 \in CreateAmounts, a1 \in CreateAmounts : Create(u, a0, a1)
      \/ \E u \in Users, dir \in {0, 1}, x \in TradeAmounts : Sell(u, dir, x) \/ Buy(u, dir, x)
      \/ \E u \in Users, a0 \in TradeAmounts : Add(u, a0)
      \/ \E u \in Users, liq \in LiqAmounts : Remove(u, liq)
Spec == Init /\ [][Next]_pvars

\* ---------------------------------------------------------------- C13 on the pool itself
KNeverShrinks == [][last'.op \in {"sell", "buy"} /\ last' # last => (r0 ** r1) \preceq (r0' ** r1')]_pvars
ReservesPositive == NoPool \/ (Zero \prec r0 /\ Zero \prec r1)
Holders == Users \cup {"zero"}
RECURSIVE SumLp(_)
SumLp(hs) == IF hs = {} THEN Zero ELSE LET h == CHOOSE x \in hs : TRUE IN lp[h] ++ SumLp(hs \ {h})
SupplyIsSumOfHoldings == sup = SumLp(Holders)
MinimumStaysLocked == NoPool \/ lp["zero"] = MinLiq
RemoveAtMostShare == last.op = "remove" => ((last.a0 ** last.sup) \preceq (last.liq ** last.r0) /\ (last.a1 ** last.sup) \preceq (last.liq ** last.r1))
\* adding a0 and removing the minted tokens at once returns no more of either coin than was put in -- for every amount, in every reachable state
AddThenRemoveNoGain ==
   NoPool \/ \A a0 \in TradeAmounts :
      LET m == MintFor(r0, r1, sup, a0) IN
      Zero \prec m.liq =>
         LET back == AmountsFor(r0 ++ a0, r1 ++ m.a1, sup ++ m.liq, m.liq) IN back.a0 \preceq a0 /\ back.a1 \preceq m.a1
\* selling and selling the proceeds back never returns more than was sold
RoundTripNoGain ==
   NoPool \/ ~Small \/ \A x \in TradeAmounts :
      LET t == SellTrade(r0, r1, x) IN
      t.ok =>
         LET back == SellTrade(r1 -- t.out, r0 ++ t.net, t.out) IN ~back.ok \/ back.out \preceq x
\* C15: buying `out` never costs less than what selling would need for it; a quote for selling x is honoured by an equal-or-better buy
BuyCostsAtLeastSell ==
   NoPool \/ ~Small \/ \A x \in TradeAmounts :
      LET t == SellTrade(r0, r1, x) IN
      t.ok => LET b == BuyTrade(r0, r1, t.out) IN b.ok /\ b.pay \preceq (x ++ One)
\* what a trader pays is what the pool receives plus what is burned: nothing else leaves the trader
PaymentSplit == last.op \in {"sell", "buy"} => Zero \prec last.burned /\ last.burned \prec last.in

View == <<r0, r1, sup, lp, last, steps>>
Dump == (steps = MaxSteps) => PrintT("SCN " \o ToJson(scn))
=============================================================================
