// driver: executes scenarios (ndjson, one scenario per line) against the real node and writes the trace.
package main

import (
	"bufio"
	"encoding/json"
	"flag"
	"fmt"
	"log"
	"os"

	"verif/harness/hz"
)

func main() {
	in := flag.String("scenarios", "", "ndjson file with one scenario per line")
	out := flag.String("out", "", "trace output (ndjson)")
	work := flag.String("work", "", "scratch directory for on-disk databases")
	stats := flag.String("stats", "", "write run statistics (json) here")
	flag.Parse()
	log.SetOutput(os.Stderr)
	f, err := os.Open(*in)
	if err != nil {
		log.Fatal(err)
	}
	defer f.Close()
	o, err := os.Create(*out)
	if err != nil {
		log.Fatal(err)
	}
	defer o.Close()
	if *work == "" {
		*work = os.TempDir()
	}
	r := hz.NewRunner(o, *work)
	sc := bufio.NewScanner(f)
	sc.Buffer(make([]byte, 1<<20), 1<<28)
	for sc.Scan() {
		line := sc.Bytes()
		if len(line) == 0 {
			continue
		}
		var s hz.Scenario
		if err := json.Unmarshal(line, &s); err != nil {
			log.Fatalf("bad scenario: %v", err)
		}
		r.RunScenario(&s)
	}
	if err := r.Out.Flush(); err != nil {
		log.Fatal(err)
	}
	if *stats != "" {
		b, _ := json.Marshal(r.Stats)
		_ = os.WriteFile(*stats, b, 0o644)
	}
	fmt.Fprintf(os.Stderr, "driver: %v\n", r.Stats)
}
