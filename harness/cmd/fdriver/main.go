// fdriver: calls the four bancor functions of /repo/formula on inputs described by scenarios and logs every call
// (C12). A scenario is a list of groups; a group fixes supply, reserve and reserve ratio and lists amounts in
// ascending order, so that each record also carries the previous call of the group (monotonicity).
package main

import (
	"bufio"
	"encoding/json"
	"flag"
	"fmt"
	"log"
	"math/big"
	"os"

	"github.com/MinterTeam/minter-go-node/formula"
)

type group struct {
	Supply  string   `json:"supply"`
	Reserve string   `json:"reserve"`
	Crr     uint32   `json:"crr"`
	Amounts []string `json:"amounts"` // ascending
}

type scenario struct {
	ID     string  `json:"id"`
	Groups []group `json:"groups"`
}

type rec struct {
	Sc    string `json:"sc"`
	I     int    `json:"i"`
	Kind  string `json:"kind"` // BcInit | Bancor
	Fn    string `json:"fn"`   // PR purchase return, PA purchase amount, SR sale return, SA sale amount, RT round trip
	S     string `json:"s"`
	R     string `json:"r"`
	Crr   int    `json:"crr"`
	X     string `json:"x"`     // argument
	Y     string `json:"y"`     // result
	Z     string `json:"z"`     // RT: what selling the bought coins returns
	PrevX string `json:"prevX"` // previous call of this function in the group ("" = none)
	PrevY string `json:"prevY"`
	Panic string `json:"panic"`
}

func bi(s string) *big.Int {
	v, ok := new(big.Int).SetString(s, 10)
	if !ok {
		log.Fatalf("bad number %q", s)
	}
	return v
}

func main() {
	in := flag.String("scenarios", "", "ndjson scenarios")
	out := flag.String("out", "", "trace (ndjson)")
	flag.String("work", "", "unused")
	flag.Parse()
	f, err := os.Open(*in)
	if err != nil {
		log.Fatal(err)
	}
	o, err := os.Create(*out)
	if err != nil {
		log.Fatal(err)
	}
	w := bufio.NewWriterSize(o, 1<<20)
	sc := bufio.NewScanner(f)
	sc.Buffer(make([]byte, 1<<20), 1<<28)
	n := 0
	for sc.Scan() {
		if len(sc.Bytes()) == 0 {
			continue
		}
		var s scenario
		if err := json.Unmarshal(sc.Bytes(), &s); err != nil {
			log.Fatal(err)
		}
		n++
		run(&s, w)
	}
	w.Flush()
	o.Close()
	fmt.Fprintf(os.Stderr, "fdriver: %d scenarios\n", n)
}

func run(s *scenario, w *bufio.Writer) {
	i := 0
	emit := func(r *rec) {
		i++
		r.Sc, r.I = s.ID, i
		b, _ := json.Marshal(r)
		w.Write(b)
		w.WriteByte('\n')
	}
	emit(&rec{Kind: "BcInit"})
	call := func(r *rec, f func() *big.Int) *big.Int {
		var y *big.Int
		func() {
			defer func() {
				if x := recover(); x != nil {
					r.Panic = fmt.Sprint(x)
				}
			}()
			y = f()
		}()
		if y != nil {
			r.Y = y.String()
		}
		return y
	}
	for _, g := range s.Groups {
		S, R := bi(g.Supply), bi(g.Reserve)
		prev := map[string][2]string{}
		for _, as := range g.Amounts {
			a := bi(as)
			for _, fn := range []string{"PR", "PA", "SR", "SA", "RT"} {
				// domains: a sale cannot exceed the supply; one cannot take out the whole reserve or more through SA
				if (fn == "SR" && a.Cmp(S) > 0) || (fn == "SA" && a.Cmp(R) >= 0) {
					continue
				}
				r := &rec{Kind: "Bancor", Fn: fn, S: g.Supply, R: g.Reserve, Crr: int(g.Crr), X: as, PrevX: prev[fn][0], PrevY: prev[fn][1]}
				switch fn {
				case "PR":
					call(r, func() *big.Int { return formula.CalculatePurchaseReturn(S, R, g.Crr, a) })
				case "PA":
					call(r, func() *big.Int { return formula.CalculatePurchaseAmount(S, R, g.Crr, a) })
				case "SR":
					call(r, func() *big.Int { return formula.CalculateSaleReturn(S, R, g.Crr, a) })
				case "SA":
					call(r, func() *big.Int { return formula.CalculateSaleAmount(S, R, g.Crr, a) })
				case "RT":
					bought := call(r, func() *big.Int { return formula.CalculatePurchaseReturn(S, R, g.Crr, a) })
					if bought != nil && bought.Sign() > 0 {
						r2 := &rec{}
						back := call(r2, func() *big.Int {
							return formula.CalculateSaleReturn(new(big.Int).Add(S, bought), new(big.Int).Add(R, a), g.Crr, bought)
						})
						if back != nil {
							r.Z = back.String()
						}
						if r2.Panic != "" {
							r.Panic = r2.Panic
						}
					} else {
						r.Z = "0"
					}
				}
				if r.Panic == "" && fn != "RT" {
					prev[fn] = [2]string{as, r.Y}
				}
				emit(r)
			}
		}
	}
}
