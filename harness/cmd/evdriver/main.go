// evdriver: replays scenarios (behaviours of the EventsStore.tla model, or random ones) against the real events store
// (coreV2/events) over one database and writes a trace: what was added, what each load returned.
package main

import (
	"bufio"
	"crypto/sha256"
	"encoding/json"
	"flag"
	"fmt"
	"log"
	"os"

	eventsdb "github.com/MinterTeam/minter-go-node/coreV2/events"
	"github.com/MinterTeam/minter-go-node/coreV2/types"
	tmjson "github.com/tendermint/tendermint/libs/json"
	db "github.com/tendermint/tm-db"
)

type evSpec struct {
	Kind   string `json:"kind"`
	Addr   string `json:"addr"`
	Key    string `json:"key"`
	Key2   string `json:"key2"`
	Amount string `json:"amount"`
	Coin   uint64 `json:"coin"`
}

type step struct {
	Op string  `json:"op"` // add | commit | restart | bulk
	Ev *evSpec `json:"ev,omitempty"`
	H  uint32  `json:"h,omitempty"`
	N  int     `json:"n,omitempty"` // bulk: number of events, each with a fresh validator key
}

type scenario struct {
	ID      string `json:"id"`
	Family  string `json:"family"`
	Backend string `json:"backend"`
	Steps   []step `json:"steps"`
}

type absEv struct {
	T string `json:"t"`
	J string `json:"j"`
}

type rec struct {
	Sc     string  `json:"sc"`
	I      int     `json:"i"`
	Kind   string  `json:"kind"`
	H      uint32  `json:"h"`
	Ev     *absEv  `json:"ev,omitempty"`
	Events []absEv `json:"events"`
	N      int     `json:"n"`
	Keys   int     `json:"keys"` // ground truth of the harness: distinct validator keys handed to the store so far
	Panic  string  `json:"panic"`
}

func addrOf(name string) types.Address {
	h := sha256.Sum256([]byte("addr:" + name))
	var a types.Address
	copy(a[:], h[:20])
	return a
}

func keyOf(name string) types.Pubkey {
	h := sha256.Sum256([]byte("key:" + name))
	var p types.Pubkey
	copy(p[:], h[:])
	return p
}

func build(e *evSpec) eventsdb.Event {
	amount := e.Amount
	if amount == "" {
		amount = "1000000000000000000"
	}
	switch e.Kind {
	case "reward":
		return &eventsdb.RewardEvent{Role: eventsdb.RoleDelegator.String(), Address: addrOf(e.Addr), Amount: amount, ValidatorPubKey: keyOf(e.Key), ForCoin: e.Coin}
	case "slash":
		return &eventsdb.SlashEvent{Address: addrOf(e.Addr), Amount: amount, Coin: e.Coin, ValidatorPubKey: keyOf(e.Key)}
	case "kick":
		return &eventsdb.StakeKickEvent{Address: addrOf(e.Addr), Amount: amount, Coin: e.Coin, ValidatorPubKey: keyOf(e.Key)}
	case "unbond":
		ev := &eventsdb.UnbondEvent{Address: addrOf(e.Addr), Amount: amount, Coin: e.Coin}
		if e.Key != "-" && e.Key != "" {
			k := keyOf(e.Key)
			ev.ValidatorPubKey = &k
		}
		return ev
	case "jail":
		return &eventsdb.JailEvent{ValidatorPubKey: keyOf(e.Key), JailedUntil: 1000 + e.Coin}
	case "unlock":
		return &eventsdb.UnlockEvent{Address: addrOf(e.Addr), Amount: amount, Coin: e.Coin}
	case "order":
		return &eventsdb.OrderExpiredEvent{ID: 77 + e.Coin%1000, Address: addrOf(e.Addr), Coin: e.Coin, Amount: amount}
	case "move":
		return &eventsdb.StakeMoveEvent{Address: addrOf(e.Addr), Amount: amount, Coin: e.Coin, CandidatePubKey: keyOf(e.Key), ToCandidatePubKey: keyOf(e.Key2)}
	case "remove":
		return &eventsdb.RemoveCandidateEvent{CandidatePubKey: keyOf(e.Key)}
	case "network":
		return &eventsdb.UpdateNetworkEvent{Version: "v" + amount}
	case "blockreward":
		return &eventsdb.UpdatedBlockRewardEvent{Value: amount, ValueLockedStakeRewards: amount + "3"}
	}
	panic("unknown event kind " + e.Kind)
}

func abstract(e eventsdb.Event) absEv {
	b, err := tmjson.Marshal(e)
	if err != nil {
		return absEv{T: e.Type(), J: "marshal error: " + err.Error()}
	}
	return absEv{T: e.Type(), J: string(b)}
}

func main() {
	in := flag.String("scenarios", "", "ndjson scenarios")
	out := flag.String("out", "", "trace (ndjson)")
	work := flag.String("work", "", "scratch directory (leveldb back end)")
	flag.Parse()
	f, err := os.Open(*in)
	if err != nil {
		log.Fatal(err)
	}
	o, err := os.Create(*out)
	if err != nil {
		log.Fatal(err)
	}
	w := bufio.NewWriterSize(o, 1<<20)
	sc := bufio.NewScanner(f)
	sc.Buffer(make([]byte, 1<<20), 1<<28)
	nsc := 0
	for sc.Scan() {
		if len(sc.Bytes()) == 0 {
			continue
		}
		var s scenario
		if err := json.Unmarshal(sc.Bytes(), &s); err != nil {
			log.Fatal(err)
		}
		nsc++
		run(&s, w, fmt.Sprintf("%s/ev%d", *work, nsc))
	}
	w.Flush()
	o.Close()
	fmt.Fprintf(os.Stderr, "evdriver: %d scenarios\n", nsc)
}

func run(s *scenario, w *bufio.Writer, dir string) {
	var d db.DB = db.NewMemDB()
	if s.Backend == "leveldb" {
		ldb, err := db.NewGoLevelDB("events", dir)
		if err != nil {
			log.Fatal(err)
		}
		d = ldb
		defer os.RemoveAll(dir)
	}
	store := eventsdb.NewEventsStore(d)
	i := 0
	keys := map[string]bool{}
	nkeys := 0
	emit := func(r *rec) {
		i++
		r.Sc, r.I = s.ID, i
		r.Keys = len(keys) + nkeys
		if r.Events == nil {
			r.Events = []absEv{}
		}
		b, _ := json.Marshal(r)
		w.Write(b)
		w.WriteByte('\n')
	}
	guard := func(r *rec, f func()) {
		defer func() {
			if x := recover(); x != nil {
				r.Panic = fmt.Sprint(x)
			}
		}()
		f()
	}
	emit(&rec{Kind: "EvInit"})
	var heights []uint32
	bulk := map[uint32]bool{}
	loadAll := func() {
		for _, h := range heights {
			if bulk[h] {
				continue
			}
			r := &rec{Kind: "EvLoad", H: h}
			guard(r, func() {
				for _, e := range store.LoadEvents(h) {
					r.Events = append(r.Events, abstract(e))
				}
			})
			emit(r)
		}
	}
	dead := false
	for _, st := range s.Steps {
		if dead {
			break
		}
		switch st.Op {
		case "add":
			r := &rec{Kind: "EvAdd"}
			guard(r, func() {
				e := build(st.Ev)
				if st.Ev.Kind != "unlock" && st.Ev.Kind != "order" && st.Ev.Kind != "network" && st.Ev.Kind != "blockreward" {
					if st.Ev.Key != "-" && st.Ev.Key != "" {
						keys[st.Ev.Key] = true
					}
					if st.Ev.Kind == "move" {
						keys[st.Ev.Key2] = true
					}
				}
				a := abstract(e)
				r.Ev = &a
				store.AddEvent(e)
			})
			emit(r)
			dead = r.Panic != ""
		case "commit":
			r := &rec{Kind: "EvCommit", H: st.H}
			guard(r, func() {
				if err := store.CommitEvents(st.H); err != nil {
					panic(err)
				}
			})
			emit(r)
			dead = r.Panic != ""
			heights = append(heights, st.H)
			if !dead {
				loadAll()
			}
		case "bulk":
			// n events with n fresh validator keys, committed at height h (not logged one by one, not loaded back)
			r := &rec{Kind: "EvBulk", H: st.H, N: st.N}
			guard(r, func() {
				for k := 0; k < st.N; k++ {
					store.AddEvent(&eventsdb.JailEvent{ValidatorPubKey: keyOf(fmt.Sprintf("bulk%d/%d", st.H, k)), JailedUntil: uint64(k)})
				}
				if err := store.CommitEvents(st.H); err != nil {
					panic(err)
				}
			})
			nkeys += st.N
			emit(r)
			dead = r.Panic != ""
			heights = append(heights, st.H)
			bulk[st.H] = true
			if !dead {
				loadAll()
			}
		case "restart":
			r := &rec{Kind: "EvRestart"}
			store = eventsdb.NewEventsStore(d)
			emit(r)
			loadAll()
		}
	}
}
