module verif/harness

go 1.17

require github.com/MinterTeam/minter-go-node v0.0.0

replace github.com/MinterTeam/minter-go-node => /repo

require (
	github.com/MinterTeam/node-grpc-gateway v1.6.2-0.20220413090743-53ffbb191668
	github.com/btcsuite/btcd v0.22.0-beta
	github.com/c-bata/go-prompt v0.2.5
	github.com/cosmos/cosmos-sdk v0.44.5
	github.com/cosmos/iavl v0.17.3
	github.com/go-kit/kit v0.12.0
	github.com/gogo/protobuf v1.3.3
	github.com/golang/protobuf v1.5.2
	github.com/gorilla/handlers v1.5.1
	github.com/grpc-ecosystem/go-grpc-middleware v1.3.0
	github.com/grpc-ecosystem/go-grpc-prometheus v1.2.0
	github.com/grpc-ecosystem/grpc-gateway/v2 v2.10.0
	github.com/marcusolsson/tui-go v0.4.0
	github.com/pkg/errors v0.9.1
	github.com/prometheus/client_golang v1.12.1
	github.com/spf13/cobra v1.4.0
	github.com/spf13/viper v1.10.1
	github.com/stretchr/testify v1.7.1
	github.com/syndtr/goleveldb v1.0.1-0.20200815110645-5c35d600f0ca
	github.com/tendermint/go-amino v0.16.0
	github.com/tendermint/tendermint v0.34.19
	github.com/tendermint/tm-db v0.6.6
	github.com/tmc/grpc-websocket-proxy v0.0.0-20220101234140-673ab2c3ae75
	github.com/urfave/cli/v2 v2.0.0
	golang.org/x/crypto v0.0.0-20211202192323-5770296d904e
	golang.org/x/sync v0.0.0-20210220032951-036812b2e83c
	golang.org/x/sys v0.0.0-20220114195835-da31bd327af9
	google.golang.org/grpc v1.45.0
	google.golang.org/protobuf v1.27.1
)


require (
	github.com/DataDog/zstd v1.4.5 // indirect
	github.com/Workiva/go-datastructures v1.0.53 // indirect
	github.com/beorn7/perks v1.0.1 // indirect
	github.com/cespare/xxhash v1.1.0 // indirect
	github.com/cespare/xxhash/v2 v2.1.2 // indirect
	github.com/confio/ics23/go v0.6.6 // indirect
	github.com/cpuguy83/go-md2man/v2 v2.0.1 // indirect
	github.com/davecgh/go-spew v1.1.1 // indirect
	github.com/dgraph-io/badger/v2 v2.2007.2 // indirect
	github.com/dgraph-io/ristretto v0.0.3 // indirect
	github.com/dgryski/go-farm v0.0.0-20200201041132-a6ae2369ad13 // indirect
	github.com/dustin/go-humanize v1.0.0 // indirect
	github.com/felixge/httpsnoop v1.0.1 // indirect
	github.com/fsnotify/fsnotify v1.5.1 // indirect
	github.com/gdamore/encoding v0.0.0-20151215212835-b23993cbb635 // indirect
	github.com/gdamore/tcell v1.1.0 // indirect
	github.com/go-kit/log v0.2.0 // indirect
	github.com/go-logfmt/logfmt v0.5.1 // indirect
	github.com/golang/snappy v0.0.3 // indirect
	github.com/google/btree v1.0.0 // indirect
	github.com/google/orderedcode v0.0.1 // indirect
	github.com/gorilla/websocket v1.5.0 // indirect
	github.com/grpc-ecosystem/grpc-gateway v1.16.0 // indirect
	github.com/gtank/merlin v0.1.1 // indirect
	github.com/hashicorp/hcl v1.0.0 // indirect
	github.com/inconshreveable/mousetrap v1.0.0 // indirect
	github.com/jmhodges/levigo v1.0.0 // indirect
	github.com/lib/pq v1.10.4 // indirect
	github.com/libp2p/go-buffer-pool v0.0.2 // indirect
	github.com/lucasb-eyer/go-colorful v0.0.0-20180709185858-c7842319cf3a // indirect
	github.com/magiconair/properties v1.8.5 // indirect
	github.com/mattn/go-colorable v0.1.12 // indirect
	github.com/mattn/go-isatty v0.0.14 // indirect
	github.com/mattn/go-runewidth v0.0.9 // indirect
	github.com/mattn/go-tty v0.0.3 // indirect
	github.com/matttproud/golang_protobuf_extensions v1.0.1 // indirect
	github.com/mimoo/StrobeGo v0.0.0-20181016162300-f8f6d4d2b643 // indirect
	github.com/minio/highwayhash v1.0.2 // indirect
	github.com/mitchellh/go-wordwrap v1.0.0 // indirect
	github.com/mitchellh/mapstructure v1.4.3 // indirect
	github.com/pelletier/go-toml v1.9.4 // indirect
	github.com/petermattis/goid v0.0.0-20180202154549-b0b1615b78e5 // indirect
	github.com/pkg/term v1.1.0 // indirect
	github.com/pmezard/go-difflib v1.0.0 // indirect
	github.com/prometheus/client_model v0.2.0 // indirect
	github.com/prometheus/common v0.32.1 // indirect
	github.com/prometheus/procfs v0.7.3 // indirect
	github.com/rcrowley/go-metrics v0.0.0-20200313005456-10cdbea86bc0 // indirect
	github.com/rs/cors v1.8.2 // indirect
	github.com/russross/blackfriday/v2 v2.1.0 // indirect
	github.com/sasha-s/go-deadlock v0.2.1-0.20190427202633-1595213edefa // indirect
	github.com/sirupsen/logrus v1.8.1 // indirect
	github.com/spf13/afero v1.6.0 // indirect
	github.com/spf13/cast v1.4.1 // indirect
	github.com/spf13/jwalterweatherman v1.1.0 // indirect
	github.com/spf13/pflag v1.0.5 // indirect
	github.com/subosito/gotenv v1.2.0 // indirect
	github.com/tecbot/gorocksdb v0.0.0-20191217155057-f0fad39f321c // indirect
	go.etcd.io/bbolt v1.3.6 // indirect
	golang.org/x/net v0.0.0-20220127200216-cd36cc0744dd // indirect
	golang.org/x/text v0.3.7 // indirect
	google.golang.org/genproto v0.0.0-20220317150908-0efb43f6373e // indirect
	gopkg.in/ini.v1 v1.66.2 // indirect
	gopkg.in/yaml.v2 v2.4.0 // indirect
	gopkg.in/yaml.v3 v3.0.0-20210107192922-496545a6307b // indirect
)
replace github.com/gogo/protobuf => github.com/regen-network/protobuf v1.3.3-alpha.regen.1
