package hz

import (
	"bytes"
	"crypto/ecdsa"
	"crypto/sha256"
	"encoding/json"
	"fmt"
	"math/big"
	"strconv"
	"strings"

	"github.com/MinterTeam/minter-go-node/coreV2/check"
	"github.com/MinterTeam/minter-go-node/coreV2/state"
	"github.com/MinterTeam/minter-go-node/coreV2/state/accounts"
	"github.com/MinterTeam/minter-go-node/coreV2/transaction"
	"github.com/MinterTeam/minter-go-node/coreV2/types"
	"github.com/MinterTeam/minter-go-node/crypto"
	"github.com/MinterTeam/minter-go-node/rlp"
	"golang.org/x/crypto/sha3"
)

// TxSpec is one abstract transaction of a scenario.
type TxSpec struct {
	ID       string                 `json:"id"`
	Type     string                 `json:"type"`
	From     string                 `json:"from"`               // sender account (or multisig account name)
	Sign     []string               `json:"sign,omitempty"`     // signing keys; default [from]
	Nonce    string                 `json:"nonce,omitempty"`    // "next" (default) | "stale" | "future" | integer
	Chain    int                    `json:"chain,omitempty"`    // 0 = current
	GasCoin  string                 `json:"gasCoin,omitempty"`  // symbol, default base
	GasPrice uint32                 `json:"gasPrice,omitempty"` // default 1
	Payload  int                    `json:"payload,omitempty"`  // payload length
	Service  int                    `json:"service,omitempty"`  // service data length
	Args     map[string]interface{} `json:"args,omitempty"`
	Mut      string                 `json:"mut,omitempty"`    // mutation class applied after signing
	Repeat   string                 `json:"repeat,omitempty"` // id of an earlier tx whose exact bytes are delivered again
	Check    bool                   `json:"check,omitempty"`  // call CheckTx first
	Multi    bool                   `json:"multi,omitempty"`  // multisig signature type
}

// BuiltTx is a TxSpec turned into bytes plus the ground truth the harness alone knows.
type BuiltTx struct {
	Spec     TxSpec
	Raw      []byte
	Sender   string   // abstract name of the claimed sender
	SignedBy []string // keys that actually signed
	Intact   bool     // bytes unchanged after signing
	Nonce    uint64
	Chain    int
	GasCoin  uint64
	GasPrice uint32
	Bytes    int
	TypeByte byte
	Abs      map[string]interface{} // abstract, resolved arguments for the trace
	DupOf    string
}

type txBuilder struct {
	n     *Names
	unit  *big.Int
	cs    *state.CheckState
	built map[string]*BuiltTx
	// checks issued in this scenario: id -> raw
	checks map[string]*issuedCheck
	height func() uint64
	// check runs CheckTx on the node under observation (nil: no probing); used to find the tightest limit the node accepts
	check func(raw []byte) uint32
}

type issuedCheck struct {
	Raw      []byte
	Hash     types.Hash
	Issuer   string
	Password string
	Coin     uint64
	GasCoin  uint64
	Value    *big.Int
	Due      uint64
	Chain    int
}

func (b *txBuilder) amt(v interface{}) *big.Int {
	switch x := v.(type) {
	case nil:
		return big.NewInt(0)
	case string:
		return ParseAmount(x, b.unit)
	case float64:
		return new(big.Int).Mul(big.NewInt(int64(x)), b.unit)
	case json.Number:
		return ParseAmount(x.String()+"u", b.unit)
	}
	panic(fmt.Sprintf("bad amount %v", v))
}

func (b *txBuilder) coin(v interface{}) types.CoinID {
	switch x := v.(type) {
	case nil:
		return 0
	case float64:
		return types.CoinID(uint32(x))
	case string:
		if x == "" || x == "BIP" || x == "MNT" || x == "0" {
			return 0
		}
		if strings.HasPrefix(x, "#") {
			id, _ := strconv.Atoi(x[1:])
			return types.CoinID(uint32(id))
		}
		if id, err := strconv.Atoi(x); err == nil {
			return types.CoinID(uint32(id))
		}
		if strings.HasPrefix(x, "LP:") { // LP:SYM0:SYM1 -> pool token of that pair
			parts := strings.Split(x, ":")
			if len(parts) == 3 {
				c0, c1 := b.coin(parts[1]), b.coin(parts[2])
				_, _, id := b.cs.Swap().SwapPool(c0, c1)
				if id != 0 {
					if m := b.cs.Coins().GetCoinBySymbol(types.StrToCoinSymbol(fmt.Sprintf("LP-%d", id)), 0); m != nil {
						return m.ID()
					}
				}
				return 999999
			}
		}
		if m := b.cs.Coins().GetCoinBySymbol(types.StrToCoinSymbol(x), 0); m != nil {
			return m.ID()
		}
		return 999999 // not existing
	}
	panic(fmt.Sprintf("bad coin %v", v))
}

func str(v interface{}) string {
	if v == nil {
		return ""
	}
	if s, ok := v.(string); ok {
		return s
	}
	return fmt.Sprint(v)
}

func num(v interface{}) uint64 {
	switch x := v.(type) {
	case nil:
		return 0
	case float64:
		return uint64(x)
	case string:
		n, _ := strconv.ParseUint(x, 10, 64)
		return n
	}
	return 0
}

func list(v interface{}) []interface{} {
	if v == nil {
		return nil
	}
	if l, ok := v.([]interface{}); ok {
		return l
	}
	return nil
}

func boolean(v interface{}) bool {
	b, _ := v.(bool)
	return b
}

// relHeight resolves "h+3" / "h-1" / "12" relative to the block under construction.
func (b *txBuilder) relHeight(v interface{}) uint64 {
	s := str(v)
	cur := b.height()
	if strings.HasPrefix(s, "h") {
		if len(s) == 1 {
			return cur
		}
		d, _ := strconv.ParseInt(s[1:], 10, 64)
		return uint64(int64(cur) + d)
	}
	if f, ok := v.(float64); ok {
		return uint64(f)
	}
	n, _ := strconv.ParseUint(s, 10, 64)
	return n
}

func (b *txBuilder) passKey(pw string) *ecdsa.PrivateKey {
	h := sha256.Sum256([]byte(pw))
	k, err := crypto.ToECDSA(h[:])
	if err != nil {
		panic(err)
	}
	return k
}

// issueCheck builds and registers a check from abstract args.
func (b *txBuilder) issueCheck(id string, a map[string]interface{}) *issuedCheck {
	if c, ok := b.checks[id]; ok {
		return c
	}
	issuer := str(a["issuer"])
	pw := str(a["password"])
	if pw == "" {
		pw = "pw-" + id
	}
	chain := int(num(a["chain"]))
	if chain == 0 {
		chain = int(types.CurrentChainID)
	}
	nonce := []byte(id)
	if nl := int(num(a["nonceLen"])); nl > 0 {
		nonce = make([]byte, nl)
		copy(nonce, id)
	}
	c := check.Check{
		Nonce: nonce, ChainID: types.ChainID(chain), DueBlock: b.relHeight(a["due"]),
		Coin: b.coin(a["coin"]), Value: b.amt(a["value"]), GasCoin: b.coin(a["gasCoin"]),
	}
	lock, err := crypto.Sign(c.HashWithoutLock().Bytes(), b.passKey(pw))
	if err != nil {
		panic(err)
	}
	c.Lock = new(big.Int).SetBytes(lock)
	if err := c.Sign(b.n.Key(issuer)); err != nil {
		panic(err)
	}
	raw, err := rlp.EncodeToBytes(c)
	if err != nil {
		panic(err)
	}
	ic := &issuedCheck{Raw: raw, Hash: c.Hash(), Issuer: issuer, Password: pw, Coin: uint64(c.Coin), GasCoin: uint64(c.GasCoin), Value: c.Value, Due: c.DueBlock, Chain: chain}
	b.checks[id] = ic
	return ic
}

func (b *txBuilder) proof(pw string, forAddr types.Address) [65]byte {
	var h types.Hash
	hw := sha3.NewLegacyKeccak256()
	_ = rlp.Encode(hw, []interface{}{forAddr})
	hw.Sum(h[:0])
	sig, err := crypto.Sign(h.Bytes(), b.passKey(pw))
	if err != nil {
		panic(err)
	}
	var p [65]byte
	copy(p[:], sig)
	return p
}

var typeBytes = map[string]transaction.TxType{
	"Send": transaction.TypeSend, "SellCoin": transaction.TypeSellCoin, "SellAllCoin": transaction.TypeSellAllCoin,
	"BuyCoin": transaction.TypeBuyCoin, "CreateCoin": transaction.TypeCreateCoin, "DeclareCandidacy": transaction.TypeDeclareCandidacy,
	"Delegate": transaction.TypeDelegate, "Unbond": transaction.TypeUnbond, "RedeemCheck": transaction.TypeRedeemCheck,
	"SetCandidateOn": transaction.TypeSetCandidateOnline, "SetCandidateOff": transaction.TypeSetCandidateOffline,
	"CreateMultisig": transaction.TypeCreateMultisig, "Multisend": transaction.TypeMultisend, "EditCandidate": transaction.TypeEditCandidate,
	"SetHaltBlock": transaction.TypeSetHaltBlock, "RecreateCoin": transaction.TypeRecreateCoin, "EditCoinOwner": transaction.TypeEditCoinOwner,
	"EditMultisig": transaction.TypeEditMultisig, "EditCandidatePublicKey": transaction.TypeEditCandidatePublicKey,
	"AddLiquidity": transaction.TypeAddLiquidity, "RemoveLiquidity": transaction.TypeRemoveLiquidity, "SellSwapPool": transaction.TypeSellSwapPool,
	"BuySwapPool": transaction.TypeBuySwapPool, "SellAllSwapPool": transaction.TypeSellAllSwapPool,
	"EditCandidateCommission": transaction.TypeEditCandidateCommission, "MoveStake": transaction.TypeMoveStake,
	"MintToken": transaction.TypeMintToken, "BurnToken": transaction.TypeBurnToken, "CreateToken": transaction.TypeCreateToken,
	"RecreateToken": transaction.TypeRecreateToken, "VoteCommission": transaction.TypeVoteCommission, "VoteUpdate": transaction.TypeVoteUpdate,
	"CreateSwapPool": transaction.TypeCreateSwapPool, "AddLimitOrder": transaction.TypeAddLimitOrder,
	"RemoveLimitOrder": transaction.TypeRemoveLimitOrder, "LockStake": transaction.TypeLockStake, "Lock": transaction.TypeLock,
	"PriceVote": transaction.TypePriceVote,
}

// TxTypeNames is the reverse of typeBytes.
var TxTypeNames = func() map[byte]string {
	m := map[byte]string{}
	for k, v := range typeBytes {
		m[byte(v)] = k
	}
	return m
}()

func (b *txBuilder) coins(v interface{}) []types.CoinID {
	var out []types.CoinID
	for _, c := range list(v) {
		out = append(out, b.coin(c))
	}
	return out
}

// data builds the rlp-able data struct and the resolved abstract args.
func (b *txBuilder) data(spec *TxSpec, sender types.Address) (interface{}, map[string]interface{}) {
	a := spec.Args
	if a == nil {
		a = map[string]interface{}{}
	}
	abs := map[string]interface{}{}
	setAmt := func(k string, v *big.Int) { abs[k] = v.String() }
	setCoin := func(k string, c types.CoinID) { abs[k] = strconv.FormatUint(uint64(c), 10) }
	switch spec.Type {
	case "Send":
		d := transaction.SendData{Coin: b.coin(a["coin"]), To: b.n.Addr(str(a["to"])), Value: b.amt(a["value"])}
		setCoin("coin", d.Coin)
		abs["to"] = str(a["to"])
		setAmt("value", d.Value)
		return d, abs
	case "Multisend":
		d := transaction.MultisendData{}
		var items []interface{}
		for _, it := range list(a["list"]) {
			m := it.(map[string]interface{})
			x := transaction.MultisendDataItem{Coin: b.coin(m["coin"]), To: b.n.Addr(str(m["to"])), Value: b.amt(m["value"])}
			d.List = append(d.List, x)
			items = append(items, map[string]interface{}{"coin": strconv.FormatUint(uint64(x.Coin), 10), "to": str(m["to"]), "value": x.Value.String()})
		}
		abs["list"] = items
		return d, abs
	case "CreateMultisig", "EditMultisig":
		var ws []uint32
		var as []types.Address
		owners := map[string]interface{}{}
		ol := list(a["owners"])
		wl := list(a["weights"])
		// the two lists are sent exactly as given: they may differ in length (more owners than weights, or the reverse)
		for i, o := range ol {
			as = append(as, b.n.Addr(str(o)))
			w := uint32(0)
			if i < len(wl) {
				w = uint32(num(wl[i]))
			} else if a["weights"] == nil {
				w = 1
			}
			owners[str(o)] = w
		}
		for i := range wl {
			ws = append(ws, uint32(num(wl[i])))
		}
		if a["weights"] == nil {
			for range ol {
				ws = append(ws, 1)
			}
		}
		abs["owners"] = owners
		abs["threshold"] = num(a["threshold"])
		var ownerSeq []interface{}
		for _, o := range ol {
			ownerSeq = append(ownerSeq, str(o))
		}
		abs["ownerSeq"] = ownerSeq
		abs["nWeights"] = len(ws)
		if spec.Type == "CreateMultisig" {
			ms := accounts.CreateMultisigAddress(sender, spec0Nonce(b, spec, sender))
			name := "ms:" + spec.ID
			if !b.n.Known(ms) {
				b.n.RegisterAddr(name, ms)
			}
			abs["address"] = b.n.AddrName(ms)
			return transaction.CreateMultisigData{Threshold: uint32(num(a["threshold"])), Weights: ws, Addresses: as}, abs
		}
		return transaction.EditMultisigData{Threshold: uint32(num(a["threshold"])), Weights: ws, Addresses: as}, abs
	case "RedeemCheck":
		cid := str(a["check"])
		var ic *issuedCheck
		if m, ok := a["issue"].(map[string]interface{}); ok {
			ic = b.issueCheck(cid, m)
		} else {
			ic = b.checks[cid]
		}
		if ic == nil {
			panic("unknown check " + cid)
		}
		pw := ic.Password
		if p := str(a["proofPassword"]); p != "" {
			pw = p
		}
		// the proof binds the check to the account that redeems it: the account of the key that signs the transaction
		if !spec.Multi && len(spec.Sign) > 0 {
			sender = b.n.Addr(spec.Sign[0])
		}
		proofFor := b.n.Addr(spec.From)
		if p := str(a["proofFor"]); p != "" {
			proofFor = b.n.Addr(p)
		}
		d := transaction.RedeemCheckData{RawCheck: ic.Raw, Proof: b.proof(pw, proofFor)}
		abs["check"] = cid
		abs["issuer"] = ic.Issuer
		abs["checkCoin"] = strconv.FormatUint(ic.Coin, 10)
		abs["checkGasCoin"] = strconv.FormatUint(ic.GasCoin, 10)
		abs["value"] = ic.Value.String()
		abs["due"] = ic.Due
		abs["checkChain"] = ic.Chain
		abs["proofOk"] = pw == ic.Password && proofFor == sender
		return d, abs
	case "Lock":
		d := transaction.LockData{DueBlock: uint32(b.relHeight(a["due"])), Coin: b.coin(a["coin"]), Value: b.amt(a["value"])}
		abs["due"] = d.DueBlock
		setCoin("coin", d.Coin)
		setAmt("value", d.Value)
		return d, abs
	case "LockStake":
		return transaction.LockStakeData{}, abs
	case "CreateCoin", "RecreateCoin":
		sym := types.StrToCoinSymbol(str(a["symbol"]))
		crr := uint32(num(a["crr"]))
		abs["symbol"] = str(a["symbol"])
		abs["symbolLen"] = len(str(a["symbol"]))
		abs["crr"] = crr
		ia, ir, mx := b.amt(a["amount"]), b.amt(a["reserve"]), b.amt(a["max"])
		setAmt("amount", ia)
		setAmt("reserve", ir)
		setAmt("max", mx)
		if spec.Type == "CreateCoin" {
			return transaction.CreateCoinData{Name: "n", Symbol: sym, InitialAmount: ia, InitialReserve: ir, ConstantReserveRatio: crr, MaxSupply: mx}, abs
		}
		return transaction.RecreateCoinData{Name: "n", Symbol: sym, InitialAmount: ia, InitialReserve: ir, ConstantReserveRatio: crr, MaxSupply: mx}, abs
	case "CreateToken", "RecreateToken":
		sym := types.StrToCoinSymbol(str(a["symbol"]))
		abs["symbol"] = str(a["symbol"])
		abs["symbolLen"] = len(str(a["symbol"]))
		ia, mx := b.amt(a["amount"]), b.amt(a["max"])
		setAmt("amount", ia)
		setAmt("max", mx)
		abs["mintable"] = boolean(a["mintable"])
		abs["burnable"] = boolean(a["burnable"])
		if spec.Type == "CreateToken" {
			return transaction.CreateTokenData{Name: "n", Symbol: sym, InitialAmount: ia, MaxSupply: mx, Mintable: boolean(a["mintable"]), Burnable: boolean(a["burnable"])}, abs
		}
		return transaction.RecreateTokenData{Name: "n", Symbol: sym, InitialAmount: ia, MaxSupply: mx, Mintable: boolean(a["mintable"]), Burnable: boolean(a["burnable"])}, abs
	case "EditCoinOwner":
		abs["symbol"] = str(a["symbol"])
		abs["newOwner"] = str(a["newOwner"])
		return transaction.EditCoinOwnerData{Symbol: types.StrToCoinSymbol(str(a["symbol"])), NewOwner: b.n.Addr(str(a["newOwner"]))}, abs
	case "MintToken":
		d := transaction.MintTokenData{Coin: b.coin(a["coin"]), Value: b.amt(a["value"])}
		setCoin("coin", d.Coin)
		setAmt("value", d.Value)
		return d, abs
	case "BurnToken":
		d := transaction.BurnTokenDataV260{Coin: b.coin(a["coin"]), Value: b.amt(a["value"])}
		setCoin("coin", d.Coin)
		setAmt("value", d.Value)
		return d, abs
	case "SellCoin":
		d := transaction.SellCoinData{CoinToSell: b.coin(a["sell"]), ValueToSell: b.amt(a["value"]), CoinToBuy: b.coin(a["buy"]), MinimumValueToBuy: b.amt(a["min"])}
		setCoin("sell", d.CoinToSell)
		setCoin("buy", d.CoinToBuy)
		setAmt("value", d.ValueToSell)
		setAmt("min", d.MinimumValueToBuy)
		return d, abs
	case "SellAllCoin":
		d := transaction.SellAllCoinData{CoinToSell: b.coin(a["sell"]), CoinToBuy: b.coin(a["buy"]), MinimumValueToBuy: b.amt(a["min"])}
		setCoin("sell", d.CoinToSell)
		setCoin("buy", d.CoinToBuy)
		setAmt("min", d.MinimumValueToBuy)
		return d, abs
	case "BuyCoin":
		d := transaction.BuyCoinData{CoinToBuy: b.coin(a["buy"]), ValueToBuy: b.amt(a["value"]), CoinToSell: b.coin(a["sell"]), MaximumValueToSell: b.amt(a["max"])}
		setCoin("sell", d.CoinToSell)
		setCoin("buy", d.CoinToBuy)
		setAmt("value", d.ValueToBuy)
		setAmt("max", d.MaximumValueToSell)
		return d, abs
	case "DeclareCandidacy":
		d := transaction.DeclareCandidacyData{Address: b.n.Addr(str(a["address"])), PubKey: b.n.Pub(str(a["pub"])), Commission: uint32(num(a["comm"])), Coin: b.coin(a["coin"]), Stake: b.amt(a["stake"])}
		abs["address"] = str(a["address"])
		abs["pub"] = str(a["pub"])
		abs["comm"] = d.Commission
		setCoin("coin", d.Coin)
		setAmt("stake", d.Stake)
		return d, abs
	case "Delegate":
		d := transaction.DelegateDataV260{PubKey: b.n.Pub(str(a["pub"])), Coin: b.coin(a["coin"]), Value: b.amt(a["value"])}
		abs["pub"] = str(a["pub"])
		setCoin("coin", d.Coin)
		setAmt("value", d.Value)
		return d, abs
	case "Unbond":
		d := transaction.UnbondDataV3{PubKey: b.n.Pub(str(a["pub"])), Coin: b.coin(a["coin"]), Value: b.amt(a["value"])}
		abs["pub"] = str(a["pub"])
		setCoin("coin", d.Coin)
		setAmt("value", d.Value)
		return d, abs
	case "MoveStake":
		d := transaction.MoveStakeData{FromPubKey: b.n.Pub(str(a["from"])), ToPubKey: b.n.Pub(str(a["to"])), Coin: b.coin(a["coin"]), Value: b.amt(a["value"])}
		abs["from"] = str(a["from"])
		abs["to"] = str(a["to"])
		setCoin("coin", d.Coin)
		setAmt("value", d.Value)
		return d, abs
	case "SetCandidateOn":
		abs["pub"] = str(a["pub"])
		return transaction.SetCandidateOnData{PubKey: b.n.Pub(str(a["pub"]))}, abs
	case "SetCandidateOff":
		abs["pub"] = str(a["pub"])
		return transaction.SetCandidateOffData{PubKey: b.n.Pub(str(a["pub"]))}, abs
	case "EditCandidate":
		abs["pub"] = str(a["pub"])
		abs["reward"], abs["owner"], abs["control"] = str(a["reward"]), str(a["owner"]), str(a["control"])
		return transaction.EditCandidateData{PubKey: b.n.Pub(str(a["pub"])), RewardAddress: b.n.Addr(str(a["reward"])), OwnerAddress: b.n.Addr(str(a["owner"])), ControlAddress: b.n.Addr(str(a["control"]))}, abs
	case "EditCandidateCommission":
		abs["pub"] = str(a["pub"])
		abs["comm"] = num(a["comm"])
		return transaction.EditCandidateCommission{PubKey: b.n.Pub(str(a["pub"])), Commission: uint32(num(a["comm"]))}, abs
	case "EditCandidatePublicKey":
		abs["pub"] = str(a["pub"])
		abs["newPub"] = str(a["newPub"])
		return transaction.EditCandidatePublicKeyData{PubKey: b.n.Pub(str(a["pub"])), NewPubKey: b.n.Pub(str(a["newPub"]))}, abs
	case "SetHaltBlock":
		h := b.relHeight(a["height"])
		abs["pub"] = str(a["pub"])
		abs["height"] = h
		return transaction.SetHaltBlockData{PubKey: b.n.Pub(str(a["pub"])), Height: h}, abs
	case "VoteUpdate":
		h := b.relHeight(a["height"])
		abs["pub"] = str(a["pub"])
		abs["height"] = h
		abs["version"] = str(a["version"])
		return transaction.VoteUpdateDataV230{Version: str(a["version"]), PubKey: b.n.Pub(str(a["pub"])), Height: h}, abs
	case "VoteCommission":
		h := b.relHeight(a["height"])
		variant := int64(num(a["variant"]))
		t := PriceTable(str(a["mode"]), b.unit, variant)
		abs["pub"] = str(a["pub"])
		abs["height"] = h
		abs["variant"] = variant
		pc := b.coin(a["priceCoin"])
		setCoin("priceCoin", pc)
		d := transaction.VoteCommissionDataV3{PubKey: b.n.Pub(str(a["pub"])), Height: h, Coin: pc,
			PayloadByte: t["PayloadByte"], Send: t["Send"], BuyBancor: t["BuyBancor"], SellBancor: t["SellBancor"], SellAllBancor: t["SellAllBancor"],
			BuyPoolBase: t["BuyPoolBase"], BuyPoolDelta: t["BuyPoolDelta"], SellPoolBase: t["SellPoolBase"], SellPoolDelta: t["SellPoolDelta"],
			SellAllPoolBase: t["SellAllPoolBase"], SellAllPoolDelta: t["SellAllPoolDelta"], CreateTicker3: t["CreateTicker3"], CreateTicker4: t["CreateTicker4"],
			CreateTicker5: t["CreateTicker5"], CreateTicker6: t["CreateTicker6"], CreateTicker7to10: t["CreateTicker7to10"], CreateCoin: t["CreateCoin"],
			CreateToken: t["CreateToken"], RecreateCoin: t["RecreateCoin"], RecreateToken: t["RecreateToken"], DeclareCandidacy: t["DeclareCandidacy"],
			Delegate: t["Delegate"], Unbond: t["Unbond"], RedeemCheck: t["RedeemCheck"], SetCandidateOn: t["SetCandidateOn"], SetCandidateOff: t["SetCandidateOff"],
			CreateMultisig: t["CreateMultisig"], MultisendBase: t["MultisendBase"], MultisendDelta: t["MultisendDelta"], EditCandidate: t["EditCandidate"],
			SetHaltBlock: t["SetHaltBlock"], EditTickerOwner: t["EditTickerOwner"], EditMultisig: t["EditMultisig"], EditCandidatePublicKey: t["EditCandidatePublicKey"],
			CreateSwapPool: t["CreateSwapPool"], AddLiquidity: t["AddLiquidity"], RemoveLiquidity: t["RemoveLiquidity"], EditCandidateCommission: t["EditCandidateCommission"],
			MintToken: t["MintToken"], BurnToken: t["BurnToken"], VoteCommission: t["VoteCommission"], VoteUpdate: t["VoteUpdate"], FailedTx: t["FailedTx"],
			AddLimitOrder: t["AddLimitOrder"], RemoveLimitOrder: t["RemoveLimitOrder"], MoveStake: t["MoveStake"], LockStake: t["LockStake"], Lock: t["Lock"]}
		return d, abs
	case "CreateSwapPool":
		d := transaction.CreateSwapPoolData{Coin0: b.coin(a["c0"]), Coin1: b.coin(a["c1"]), Volume0: b.amt(a["v0"]), Volume1: b.amt(a["v1"])}
		setCoin("c0", d.Coin0)
		setCoin("c1", d.Coin1)
		setAmt("v0", d.Volume0)
		setAmt("v1", d.Volume1)
		return d, abs
	case "AddLiquidity":
		d := transaction.AddLiquidityDataV260{Coin0: b.coin(a["c0"]), Coin1: b.coin(a["c1"]), Volume0: b.amt(a["v0"]), MaximumVolume1: b.amt(a["max1"])}
		setCoin("c0", d.Coin0)
		setCoin("c1", d.Coin1)
		setAmt("v0", d.Volume0)
		setAmt("max1", d.MaximumVolume1)
		return d, abs
	case "RemoveLiquidity":
		d := transaction.RemoveLiquidityV240{Coin0: b.coin(a["c0"]), Coin1: b.coin(a["c1"]), Liquidity: b.amt(a["liquidity"]), MinimumVolume0: b.amt(a["min0"]), MinimumVolume1: b.amt(a["min1"])}
		setCoin("c0", d.Coin0)
		setCoin("c1", d.Coin1)
		setAmt("liquidity", d.Liquidity)
		setAmt("min0", d.MinimumVolume0)
		setAmt("min1", d.MinimumVolume1)
		return d, abs
	case "SellSwapPool":
		d := transaction.SellSwapPoolDataV260{Coins: b.coins(a["coins"]), ValueToSell: b.amt(a["value"])}
		if q, ok := a["min"].(string); !ok || !strings.HasPrefix(q, "quote:") {
			d.MinimumValueToBuy = b.amt(a["min"])
		}
		if q, ok := a["min"].(string); ok && strings.HasPrefix(q, "quote:") {
			// a tight limit: the route's output on the current reserves (what an estimate gives), scaled by permille
			if v := b.routeQuote(d.Coins, d.ValueToSell, true); v != nil {
				d.MinimumValueToBuy = scalePermille(v, q[6:])
			} else {
				d.MinimumValueToBuy = big.NewInt(0)
			}
		}
		if f, ok := a["fill"].(map[string]interface{}); ok && len(d.Coins) == 2 {
			// the amount is found by searching the node's own order-book calculator (see sellTarget)
			if v := b.sellTarget(d.Coins[0], d.Coins[1], f); v != nil {
				d.ValueToSell = v
			}
		}
		abs["coins"] = coinStrs(d.Coins)
		setAmt("value", d.ValueToSell)
		setAmt("min", d.MinimumValueToBuy)
		return d, abs
	case "BuySwapPool":
		d := transaction.BuySwapPoolDataV260{Coins: b.coins(a["coins"]), ValueToBuy: b.amt(a["value"])}
		if q, ok := a["max"].(string); ok && strings.HasPrefix(q, "quote:") {
			if v := b.routeQuote(d.Coins, d.ValueToBuy, false); v != nil {
				d.MaximumValueToSell = scalePermille(v, q[6:])
			} else {
				d.MaximumValueToSell = new(big.Int).Mul(b.unit, big.NewInt(100000000))
			}
		} else {
			d.MaximumValueToSell = b.amt(a["max"])
		}
		abs["coins"] = coinStrs(d.Coins)
		setAmt("value", d.ValueToBuy)
		setAmt("max", d.MaximumValueToSell)
		return d, abs
	case "SellAllSwapPool":
		d := transaction.SellAllSwapPoolDataV260{Coins: b.coins(a["coins"]), MinimumValueToBuy: b.amt(a["min"])}
		abs["coins"] = coinStrs(d.Coins)
		setAmt("min", d.MinimumValueToBuy)
		return d, abs
	case "AddLimitOrder":
		d := transaction.AddLimitOrderData{CoinToSell: b.coin(a["sell"]), ValueToSell: b.amt(a["sellValue"]), CoinToBuy: b.coin(a["buy"]), ValueToBuy: b.amt(a["buyValue"])}
		setCoin("sell", d.CoinToSell)
		setCoin("buy", d.CoinToBuy)
		setAmt("sellValue", d.ValueToSell)
		setAmt("buyValue", d.ValueToBuy)
		return d, abs
	case "RemoveLimitOrder":
		abs["order"] = num(a["order"])
		return transaction.RemoveLimitOrderData{ID: uint32(num(a["order"]))}, abs
	}
	panic("unknown tx type " + spec.Type)
}

func coinStrs(cs []types.CoinID) []interface{} {
	var out []interface{}
	for _, c := range cs {
		out = append(out, strconv.FormatUint(uint64(c), 10))
	}
	return out
}

func spec0Nonce(b *txBuilder, spec *TxSpec, sender types.Address) uint64 {
	cur := b.cs.Accounts().GetNonce(sender)
	switch spec.Nonce {
	case "", "next":
		return cur + 1
	case "stale":
		return cur
	case "future":
		return cur + 2
	}
	n, err := strconv.ParseUint(spec.Nonce, 10, 64)
	if err != nil {
		panic("bad nonce " + spec.Nonce)
	}
	return n
}

// Build turns a spec into signed bytes.
// tightLimit: a slippage limit given as "tight" (optionally "tight+<pip>" / "tight-<pip>") is replaced by the tightest value that the
// node's own CheckTx accepts on the current state, found by bisection over probe transactions: the largest accepted minimum-to-buy
// of a sell, the smallest accepted maximum-to-sell of a buy. Delivered right afterwards on the same state, such a transaction must
// still honour its limit (C15) -- whatever estimate CheckTx and DeliverTx share or fail to share.
func (b *txBuilder) tightLimit(spec *TxSpec) {
	if b.check == nil || spec.Args == nil {
		return
	}
	key := ""
	for _, k := range []string{"max", "min"} {
		if q, ok := spec.Args[k].(string); ok && strings.HasPrefix(q, "tight") {
			key = k
		}
	}
	if key == "" {
		return
	}
	q := spec.Args[key].(string)
	off := big.NewInt(0)
	if len(q) > 5 {
		off, _ = new(big.Int).SetString(q[5:], 10)
		if off == nil {
			off = big.NewInt(0)
		}
	}
	accept := func(v *big.Int) bool {
		s2 := *spec
		s2.ID = spec.ID + "~probe"
		s2.Args = map[string]interface{}{}
		for k, x := range spec.Args {
			s2.Args[k] = x
		}
		s2.Args[key] = v.String()
		bt := b.Build(s2)
		delete(b.built, s2.ID)
		return b.check(bt.Raw) == 0
	}
	lo, hi := big.NewInt(0), new(big.Int).Exp(big.NewInt(10), big.NewInt(30), nil)
	var res *big.Int
	if key == "max" { // smallest accepted maximum
		if !accept(hi) {
			spec.Args[key] = hi.String()
			return
		}
		for new(big.Int).Sub(hi, lo).Cmp(big.NewInt(1)) > 0 {
			mid := new(big.Int).Rsh(new(big.Int).Add(lo, hi), 1)
			if accept(mid) {
				hi = mid
			} else {
				lo = mid
			}
		}
		res = hi
	} else { // largest accepted minimum
		if !accept(lo) {
			spec.Args[key] = "0"
			return
		}
		for new(big.Int).Sub(hi, lo).Cmp(big.NewInt(1)) > 0 {
			mid := new(big.Int).Rsh(new(big.Int).Add(lo, hi), 1)
			if accept(mid) {
				lo = mid
			} else {
				hi = mid
			}
		}
		res = lo
	}
	res = new(big.Int).Add(res, off)
	if res.Sign() < 0 {
		res = big.NewInt(0)
	}
	spec.Args[key] = res.String()
}

func (b *txBuilder) Build(spec TxSpec) *BuiltTx {
	b.tightLimit(&spec)
	if spec.Repeat != "" {
		prev, ok := b.built[spec.Repeat]
		if !ok {
			panic("repeat of unknown tx " + spec.Repeat)
		}
		cp := *prev
		cp.Spec.ID = spec.ID
		cp.Spec.Check = spec.Check
		cp.DupOf = spec.Repeat
		if prev.DupOf != "" {
			cp.DupOf = prev.DupOf
		}
		b.built[spec.ID] = &cp
		return &cp
	}
	senderName := spec.From
	sender := b.n.Addr(senderName)
	tt, ok := typeBytes[spec.Type]
	if !ok {
		panic("unknown tx type " + spec.Type)
	}
	data, abs := b.data(&spec, sender)
	enc, err := rlp.EncodeToBytes(data)
	if err != nil {
		panic(err)
	}
	if strings.HasPrefix(spec.Mut, "pre-check-") && spec.Type == "RedeemCheck" {
		if e2, ok := rewriteCheck(enc, spec.Mut); ok {
			enc = e2
			abs["noncanon"] = true
		}
	}
	if strings.HasPrefix(spec.Mut, "pre-data-") {
		// the data field is re-encoded non-canonically BEFORE signing: the signature covers exactly these bytes
		if e2, ok := rewriteData(enc, spec.Mut); ok {
			enc = e2
			abs["noncanon"] = true
		}
	}
	chain := spec.Chain
	if chain == 0 {
		chain = int(types.CurrentChainID)
	}
	gp := spec.GasPrice
	if gp == 0 {
		gp = 1
	}
	gasCoin := b.coin(spec.GasCoin)
	tx := transaction.Transaction{
		Nonce: spec0Nonce(b, &spec, sender), ChainID: types.ChainID(chain), GasPrice: gp, GasCoin: gasCoin,
		Type: tt, Data: enc, SignatureType: transaction.SigTypeSingle,
	}
	if spec.Payload > 0 {
		tx.Payload = make([]byte, spec.Payload)
		for i := range tx.Payload {
			tx.Payload[i] = byte('a' + i%26)
		}
	}
	if spec.Service > 0 {
		tx.ServiceData = make([]byte, spec.Service)
	}
	signers := spec.Sign
	if len(signers) == 0 {
		signers = []string{senderName}
	}
	if spec.Multi {
		tx.SignatureType = transaction.SigTypeMulti
		tx.SetMultisigAddress(sender)
	}
	for _, s := range signers {
		if err := tx.Sign(b.n.Key(s)); err != nil {
			panic(err)
		}
		if !spec.Multi {
			break
		}
	}
	raw, err := rlp.EncodeToBytes(tx)
	if err != nil {
		panic(err)
	}
	bt := &BuiltTx{Spec: spec, Raw: raw, Sender: senderName, SignedBy: signers, Intact: true, Nonce: tx.Nonce, Chain: chain,
		GasCoin: uint64(gasCoin), GasPrice: gp, Bytes: spec.Payload + spec.Service, TypeByte: byte(tt), Abs: abs}
	// sell-all transactions pay their commission in the coin they sell, whatever the gas-coin field says
	switch spec.Type {
	case "SellAllCoin":
		bt.GasCoin = uint64(b.coin(spec.Args["sell"]))
	case "SellAllSwapPool":
		if cs := b.coins(spec.Args["coins"]); len(cs) > 0 {
			bt.GasCoin = uint64(cs[0])
		}
	}
	if !spec.Multi {
		bt.SignedBy = signers[:1]
		// a single signature makes the signing key's address the sender, whatever "from" says
		bt.Sender = b.n.AddrName(b.n.Addr(signers[0]))
	}
	if strings.HasPrefix(spec.Mut, "nc-") {
		if r2, ok := rewriteNonCanonical(bt.Raw, spec.Mut); ok {
			bt.Raw = r2
			bt.Abs["noncanon"] = true
		}
	} else if spec.Mut != "" && !strings.HasPrefix(spec.Mut, "pre-data-") && !strings.HasPrefix(spec.Mut, "pre-check-") {
		applyMutation(bt, &tx, spec.Mut, b)
		if bytes.Equal(bt.Raw, raw) {
			// the mutation changed nothing (e.g. huge-gasprice on a transaction that was already signed with that gas price):
			// the bytes are the validly signed transaction, so its signer does authorize it
			bt.Intact = true
		}
	}
	b.built[spec.ID] = bt
	return bt
}

// sellTarget finds, by bisection over the node's read-only calculator CalculateBuyForSellWithOrders, the amount of coin c0
// to sell into pool (c0, c1) that reaches a given point of the order book:
//
//	{"cross": n, "extra": amount}     the smallest amount that consumes n orders completely, plus `extra`
//	{"order": id, "leave": amount}    the smallest amount that leaves at most `leave` of order id's escrow unfilled
//
// Returns nil when the book has no such point (the caller keeps the plain value).
func (b *txBuilder) sellTarget(c0, c1 types.CoinID, f map[string]interface{}) *big.Int {
	pair := b.cs.Swap().GetSwapper(c0, c1)
	if pair == nil || !pair.Exists() {
		return nil
	}
	r0, _ := pair.Reserves()
	reached := func(x *big.Int) (ok bool) {
		defer func() {
			if recover() != nil { // the calculator refuses some amounts by panicking
				ok = false
			}
		}()
		_, fills := pair.CalculateBuyForSellWithOrders(new(big.Int).Set(x))
		if id, ok := f["order"]; ok {
			want := uint32(num(id))
			leave := b.amt(f["leave"])
			for _, fl := range fills {
				if fl.ID() == want {
					orig := b.cs.Swap().GetOrder(want)
					if orig == nil {
						return true
					}
					rest := new(big.Int).Sub(orig.WantSell, fl.WantSell)
					return rest.Cmp(leave) <= 0
				}
			}
			return false
		}
		n := int(num(f["cross"]))
		full := 0
		for _, fl := range fills {
			if orig := b.cs.Swap().GetOrder(fl.ID()); orig != nil && orig.WantSell.Cmp(fl.WantSell) == 0 {
				full++
			}
		}
		return full >= n
	}
	hi := new(big.Int).Mul(r0, big.NewInt(8))
	if hi.Sign() == 0 || !reached(hi) {
		return nil
	}
	lo := big.NewInt(1)
	for i := 0; i < 300 && lo.Cmp(hi) < 0; i++ {
		mid := new(big.Int).Add(lo, hi)
		mid.Rsh(mid, 1)
		if reached(mid) {
			hi = mid
		} else {
			lo = new(big.Int).Add(mid, big.NewInt(1))
		}
	}
	if e, ok := f["extra"]; ok {
		hi = new(big.Int).Add(hi, b.amt(e))
	}
	return hi
}

func scalePermille(v *big.Int, permille string) *big.Int {
	p, err := strconv.ParseInt(permille, 10, 64)
	if err != nil {
		p = 1000
	}
	out := new(big.Int).Mul(v, big.NewInt(p))
	return out.Div(out, big.NewInt(1000))
}

// routeQuote walks a pool route on the current reserves and order books (the read-only calculators the estimate API uses):
// sell=true: output of selling `amount` of coins[0] along the route; sell=false: input needed to buy `amount` of the last coin.
func (b *txBuilder) routeQuote(coins []types.CoinID, amount *big.Int, sell bool) (res *big.Int) {
	defer func() {
		if recover() != nil {
			res = nil
		}
	}()
	if len(coins) < 2 || amount.Sign() <= 0 {
		return nil
	}
	v := new(big.Int).Set(amount)
	if sell {
		for i := 0; i+1 < len(coins); i++ {
			pair := b.cs.Swap().GetSwapper(coins[i], coins[i+1])
			if pair == nil || !pair.Exists() {
				return nil
			}
			v, _ = pair.CalculateBuyForSellWithOrders(v)
			if v == nil || v.Sign() <= 0 {
				return nil
			}
		}
		return v
	}
	for i := len(coins) - 1; i > 0; i-- {
		pair := b.cs.Swap().GetSwapper(coins[i-1], coins[i])
		if pair == nil || !pair.Exists() {
			return nil
		}
		v, _ = pair.CalculateSellForBuyWithOrders(v)
		if v == nil || v.Sign() <= 0 {
			return nil
		}
	}
	return v
}

// recoveredSender decodes raw the way the node does and names the account it would take the transaction from ("" if it does not decode).
func recoveredSender(n *Names, raw []byte) (name string) {
	defer func() {
		if recover() != nil {
			name = ""
		}
	}()
	tx, err := transaction.NewExecutorV3(transaction.GetDataV3).DecodeFromBytes(raw)
	if err != nil {
		return ""
	}
	s, err := tx.Sender()
	if err != nil {
		return ""
	}
	return n.AddrName(s)
}
