package hz

import (
	"fmt"
	"math/big"
	"sort"
	"strings"

	"github.com/MinterTeam/minter-go-node/coreV2/types"
)

// World is the scenario header: everything needed to build a genesis and a node.
type World struct {
	Name          string         `json:"name"`
	StakePeriod   uint64         `json:"stakePeriod"`
	ExpirePeriod  uint64         `json:"expirePeriod"`
	InitialHeight int64          `json:"initialHeight"`
	Unit          string         `json:"unit"`
	StartTime     int64          `json:"startTime"` // unix seconds of the first block
	BlockSeconds  int64          `json:"blockSeconds"`
	Accounts      []GenAccount   `json:"accounts"`
	Candidates    []GenCandidate `json:"candidates"`
	Coins         []GenCoin      `json:"coins"`
	Pools         []GenPool      `json:"pools"`
	Frozen        []GenFrozen    `json:"frozen"`
	Waitlist      []GenWait      `json:"waitlist"`
	PriceCoin     string         `json:"priceCoin"` // symbol of the coin the price table is denominated in ("" = base)
	PriceMode     string         `json:"priceMode"` // "primes" (default) | "flat" | "zero"
	Emission      string         `json:"emission"`
	TotalSlashed  string         `json:"totalSlashed"`
	PrevReward    *GenPrevReward `json:"prevReward"`
	MaxGas        uint64         `json:"maxGas"`
	Versions      []string       `json:"versions"` // default v300..v330 at initial height - 1
	KeepStates    int64          `json:"keepStates"`
}

type GenAccount struct {
	Name      string            `json:"name"`
	Bal       map[string]string `json:"bal"` // coin symbol -> amount
	Nonce     uint64            `json:"nonce"`
	LockUntil uint64            `json:"lockUntil"`
	Msig      *GenMsig          `json:"msig"`
}

type GenMsig struct {
	Threshold uint64   `json:"threshold"`
	Owners    []string `json:"owners"`
	Weights   []uint64 `json:"weights"`
}

type GenStake struct {
	Owner string `json:"o"`
	Coin  string `json:"c"`
	Value string `json:"v"`
}

type GenCandidate struct {
	Name       string     `json:"name"`
	Owner      string     `json:"owner"`
	Reward     string     `json:"reward"`
	Control    string     `json:"control"`
	Commission uint64     `json:"comm"`
	Validator  bool       `json:"validator"`
	Online     bool       `json:"online"`
	Stakes     []GenStake `json:"stakes"`
	Updates    []GenStake `json:"updates"`
	Jailed     uint64     `json:"jailed"`
}

type GenCoin struct {
	ID       uint64 `json:"id"`
	Symbol   string `json:"sym"`
	Crr      uint64 `json:"crr"` // 0 = token
	Reserve  string `json:"res"`
	Max      string `json:"max"`
	Owner    string `json:"owner"`
	Mintable bool   `json:"mint"`
	Burnable bool   `json:"burn"`
	Extra    string `json:"extra"` // extra volume not held by anyone is impossible; kept for completeness
}

type GenOrder struct {
	Owner    string `json:"owner"`
	SellCoin string `json:"sellCoin"`
	WantBuy  string `json:"wantBuy"`
	WantSell string `json:"wantSell"`
	Height   uint64 `json:"h"`
}

type GenPool struct {
	Coin0    string            `json:"c0"`
	Coin1    string            `json:"c1"`
	Reserve0 string            `json:"r0"`
	Reserve1 string            `json:"r1"`
	Holders  map[string]string `json:"holders"` // account -> share of liquidity (besides the locked 1000)
	Orders   []GenOrder        `json:"orders"`
}

type GenFrozen struct {
	Height uint64 `json:"due"`
	Owner  string `json:"o"`
	Cand   string `json:"cand"` // "" = plain lock
	Coin   string `json:"c"`
	Value  string `json:"v"`
	MoveTo string `json:"to"`
}

type GenPrevReward struct {
	Time   uint64 `json:"time"`
	BIP    string `json:"bip"`
	USDT   string `json:"usdt"`
	Off    bool   `json:"off"`
	Reward string `json:"reward"`
}

var primes = []int64{2, 3, 5, 7, 11, 13, 17, 19, 23, 29, 31, 37, 41, 43, 47, 53, 59, 61, 67, 71, 73, 79, 83, 89, 97, 101, 103, 107, 109, 113, 127, 131, 137, 139, 149, 151, 157, 163, 167, 173, 179, 181, 191, 193, 197, 199, 211, 223, 227, 229, 233}

// CommissionFields is the canonical order of price-table fields (abstract names used in traces).
var CommissionFields = []string{"PayloadByte", "Send", "BuyBancor", "SellBancor", "SellAllBancor", "BuyPoolBase", "BuyPoolDelta", "SellPoolBase", "SellPoolDelta", "SellAllPoolBase", "SellAllPoolDelta", "CreateTicker3", "CreateTicker4", "CreateTicker5", "CreateTicker6", "CreateTicker7to10", "CreateCoin", "CreateToken", "RecreateCoin", "RecreateToken", "DeclareCandidacy", "Delegate", "Unbond", "RedeemCheck", "SetCandidateOn", "SetCandidateOff", "CreateMultisig", "MultisendBase", "MultisendDelta", "EditCandidate", "SetHaltBlock", "EditTickerOwner", "EditMultisig", "EditCandidatePublicKey", "CreateSwapPool", "AddLiquidity", "RemoveLiquidity", "EditCandidateCommission", "MintToken", "BurnToken", "VoteCommission", "VoteUpdate", "FailedTx", "AddLimitOrder", "RemoveLimitOrder", "MoveStake", "LockStake", "Lock"}

// PriceTable returns field -> amount for the given mode. In "primes" mode entry i is the
// i-th prime times unit/1000: pairwise distinct, small against unit-sized amounts.
func PriceTable(mode string, unit *big.Int, variant int64) map[string]*big.Int {
	res := map[string]*big.Int{}
	milli := new(big.Int).Div(unit, big.NewInt(1000))
	for i, f := range CommissionFields {
		switch mode {
		case "zero":
			res[f] = big.NewInt(0)
		case "flat":
			res[f] = new(big.Int).Set(milli)
		case "unit":
			res[f] = new(big.Int).Set(unit)
		default:
			v := new(big.Int).Mul(big.NewInt(primes[i]+variant*primes[(i+7)%len(primes)]), milli)
			if f == "PayloadByte" {
				v.Div(v, big.NewInt(100))
			}
			res[f] = v
		}
	}
	return res
}

func commissionToGenesis(coin uint64, t map[string]*big.Int) types.Commission {
	g := func(f string) string { return t[f].String() }
	return types.Commission{
		Coin: coin, PayloadByte: g("PayloadByte"), Send: g("Send"), BuyBancor: g("BuyBancor"), SellBancor: g("SellBancor"),
		SellAllBancor: g("SellAllBancor"), BuyPoolBase: g("BuyPoolBase"), BuyPoolDelta: g("BuyPoolDelta"),
		SellPoolBase: g("SellPoolBase"), SellPoolDelta: g("SellPoolDelta"), SellAllPoolBase: g("SellAllPoolBase"),
		SellAllPoolDelta: g("SellAllPoolDelta"), CreateTicker3: g("CreateTicker3"), CreateTicker4: g("CreateTicker4"),
		CreateTicker5: g("CreateTicker5"), CreateTicker6: g("CreateTicker6"), CreateTicker7_10: g("CreateTicker7to10"),
		CreateCoin: g("CreateCoin"), CreateToken: g("CreateToken"), RecreateCoin: g("RecreateCoin"), RecreateToken: g("RecreateToken"),
		DeclareCandidacy: g("DeclareCandidacy"), Delegate: g("Delegate"), Unbond: g("Unbond"), RedeemCheck: g("RedeemCheck"),
		SetCandidateOn: g("SetCandidateOn"), SetCandidateOff: g("SetCandidateOff"), CreateMultisig: g("CreateMultisig"),
		MultisendBase: g("MultisendBase"), MultisendDelta: g("MultisendDelta"), EditCandidate: g("EditCandidate"),
		SetHaltBlock: g("SetHaltBlock"), EditTickerOwner: g("EditTickerOwner"), EditMultisig: g("EditMultisig"),
		EditCandidatePublicKey: g("EditCandidatePublicKey"), CreateSwapPool: g("CreateSwapPool"), AddLiquidity: g("AddLiquidity"),
		RemoveLiquidity: g("RemoveLiquidity"), EditCandidateCommission: g("EditCandidateCommission"), MintToken: g("MintToken"),
		BurnToken: g("BurnToken"), VoteCommission: g("VoteCommission"), VoteUpdate: g("VoteUpdate"), FailedTx: g("FailedTx"),
		AddLimitOrder: g("AddLimitOrder"), RemoveLimitOrder: g("RemoveLimitOrder"), MoveStake: g("MoveStake"),
		LockStake: g("LockStake"), Lock: g("Lock"),
	}
}

func (w *World) UnitInt() *big.Int {
	if w.Unit == "" {
		return new(big.Int).Exp(big.NewInt(10), big.NewInt(18), nil)
	}
	u, ok := new(big.Int).SetString(w.Unit, 10)
	if !ok {
		panic("bad unit")
	}
	return u
}

func (w *World) defaults() {
	if w.StakePeriod == 0 {
		w.StakePeriod = 6
	}
	if w.ExpirePeriod == 0 {
		w.ExpirePeriod = 5
	}
	if w.InitialHeight == 0 {
		w.InitialHeight = 1
	}
	if w.StartTime == 0 {
		w.StartTime = 1609495200 // 2021-01-01 10:00:00 UTC
	}
	if w.BlockSeconds == 0 {
		w.BlockSeconds = 5
	}
	if w.MaxGas == 0 {
		w.MaxGas = 100000
	}
	if w.TotalSlashed == "" {
		w.TotalSlashed = "0"
	}
	if w.Emission == "" {
		w.Emission = "1000u"
	}
	if w.KeepStates == 0 {
		w.KeepStates = 3
	}
}

// CoinIDs resolves genesis coin symbols.
func (w *World) coinIDs() map[string]uint64 {
	m := map[string]uint64{"BIP": 0, "MNT": 0, "0": 0}
	next := uint64(1)
	for i := range w.Coins {
		c := &w.Coins[i]
		if c.ID == 0 {
			c.ID = next
		}
		if c.ID >= next {
			next = c.ID + 1
		}
		m[c.Symbol] = c.ID
	}
	return m
}

// BuildGenesis produces a consistent AppState (coin volumes = sum of holdings).
func (w *World) BuildGenesis(n *Names) types.AppState {
	w.defaults()
	U := w.UnitInt()
	ids := w.coinIDs()
	amt := func(s string) *big.Int { return ParseAmount(s, U) }
	cid := func(sym string) uint64 {
		id, ok := ids[sym]
		if !ok {
			panic("unknown genesis coin " + sym)
		}
		return id
	}
	vol := map[uint64]*big.Int{}
	add := func(c uint64, v *big.Int) {
		if vol[c] == nil {
			vol[c] = big.NewInt(0)
		}
		vol[c].Add(vol[c], v)
	}
	st := types.AppState{MaxGas: w.MaxGas, TotalSlashed: amt(w.TotalSlashed).String()}

	bal := map[string]map[uint64]*big.Int{}
	addBal := func(name string, c uint64, v *big.Int) {
		if bal[name] == nil {
			bal[name] = map[uint64]*big.Int{}
		}
		if bal[name][c] == nil {
			bal[name][c] = big.NewInt(0)
		}
		bal[name][c].Add(bal[name][c], v)
		add(c, v)
	}
	accMeta := map[string]GenAccount{}
	for _, a := range w.Accounts {
		accMeta[a.Name] = a
		if bal[a.Name] == nil {
			bal[a.Name] = map[uint64]*big.Int{}
		}
		for sym, v := range a.Bal {
			addBal(a.Name, cid(sym), amt(v))
		}
	}

	// pools and LP coins
	nextCoin := uint64(1)
	for _, c := range w.Coins {
		if c.ID >= nextCoin {
			nextCoin = c.ID + 1
		}
	}
	lpCoins := []types.Coin{}
	nextOrder := uint64(1)
	for i, p := range w.Pools {
		c0, c1 := cid(p.Coin0), cid(p.Coin1)
		r0, r1 := amt(p.Reserve0), amt(p.Reserve1)
		if c0 > c1 {
			c0, c1 = c1, c0
			r0, r1 = r1, r0
		}
		add(c0, r0)
		add(c1, r1)
		poolID := uint64(i + 1)
		lpID := nextCoin
		nextCoin++
		ids[fmt.Sprintf("LP-%d", poolID)] = lpID
		addBal("zero", lpID, big.NewInt(1000))
		for h, v := range p.Holders {
			addBal(h, lpID, amt(v))
		}
		gp := types.Pool{Coin0: c0, Coin1: c1, Reserve0: r0.String(), Reserve1: r1.String(), ID: poolID}
		for _, o := range p.Orders {
			sell := cid(o.SellCoin)
			wb, ws := amt(o.WantBuy), amt(o.WantSell)
			add(sell, ws)
			// genesis order: IsSale true means the owner sells coin1 for coin0 (volume0 = buy, volume1 = sell)
			ord := types.Order{ID: nextOrder, Owner: n.Addr(o.Owner), Height: o.Height}
			if sell == c1 {
				ord.IsSale = true
				ord.Volume0, ord.Volume1 = wb.String(), ws.String()
			} else {
				ord.IsSale = false
				ord.Volume0, ord.Volume1 = ws.String(), wb.String()
			}
			nextOrder++
			gp.Orders = append(gp.Orders, ord)
		}
		st.Pools = append(st.Pools, gp)
		lpCoins = append(lpCoins, types.Coin{ID: lpID, Name: fmt.Sprintf("Liquidity Pool %d", poolID), Symbol: types.StrToCoinSymbol(fmt.Sprintf("LP-%d", poolID)), MaxSupply: "1000000000000000000000000000000000"})
	}
	st.NextOrderID = nextOrder

	// candidates
	candID := map[string]uint64{}
	for i, c := range w.Candidates {
		candID[c.Name] = uint64(i + 1)
	}
	for i, c := range w.Candidates {
		gc := types.Candidate{
			ID: uint64(i + 1), RewardAddress: n.Addr(c.Reward), OwnerAddress: n.Addr(c.Owner), ControlAddress: n.Addr(c.Control),
			PubKey: n.Pub(c.Name), Commission: c.Commission, Status: 1, JailedUntil: c.Jailed,
		}
		if c.Online || c.Validator {
			gc.Status = 2
		}
		total := big.NewInt(0)
		conv := func(ss []GenStake) []types.Stake {
			var out []types.Stake
			for _, s := range ss {
				v := amt(s.Value)
				add(cid(s.Coin), v)
				bv := v
				if cid(s.Coin) != 0 {
					bv = big.NewInt(0) // recalculated at import
				}
				out = append(out, types.Stake{Owner: n.Addr(s.Owner), Coin: cid(s.Coin), Value: v.String(), BipValue: bv.String()})
			}
			return out
		}
		gc.Stakes = conv(c.Stakes)
		for _, s := range c.Stakes {
			if cid(s.Coin) == 0 {
				total.Add(total, amt(s.Value))
			}
		}
		gc.Updates = conv(c.Updates)
		gc.TotalBipStake = total.String()
		st.Candidates = append(st.Candidates, gc)
		if c.Validator {
			st.Validators = append(st.Validators, types.Validator{TotalBipStake: total.String(), PubKey: n.Pub(c.Name), AccumReward: "0", AbsentTimes: types.NewBitArray(24)})
		}
	}
	for _, wl := range w.Waitlist {
		v := amt(wl.Value)
		add(cid(wl.Coin), v)
		st.Waitlist = append(st.Waitlist, types.Waitlist{CandidateID: candID[wl.Cand], Owner: n.Addr(wl.Owner), Coin: cid(wl.Coin), Value: v.String()})
	}
	for _, f := range w.Frozen {
		v := amt(f.Value)
		add(cid(f.Coin), v)
		ff := types.FrozenFund{Height: f.Height, Address: n.Addr(f.Owner), Coin: cid(f.Coin), Value: v.String()}
		if f.Cand != "" {
			pk := n.Pub(f.Cand)
			ff.CandidateKey = &pk
			ff.CandidateID = candID[f.Cand]
		}
		if f.MoveTo != "" {
			ff.MoveToCandidateID = candID[f.MoveTo]
		}
		st.FrozenFunds = append(st.FrozenFunds, ff)
	}

	// accounts
	names := make([]string, 0, len(bal))
	for name := range bal {
		names = append(names, name)
	}
	sort.Strings(names)
	for _, name := range names {
		ga := types.Account{Address: n.Addr(name)}
		if m, ok := accMeta[name]; ok {
			ga.Nonce = m.Nonce
			ga.LockStakeUntilBlock = m.LockUntil
			if m.Msig != nil {
				ms := &types.Multisig{Threshold: m.Msig.Threshold, Weights: m.Msig.Weights}
				for _, o := range m.Msig.Owners {
					ms.Addresses = append(ms.Addresses, n.Addr(o))
				}
				ga.MultisigData = ms
			}
		}
		cids := make([]uint64, 0)
		for c := range bal[name] {
			cids = append(cids, c)
		}
		sort.Slice(cids, func(i, j int) bool { return cids[i] < cids[j] })
		for _, c := range cids {
			if bal[name][c].Sign() != 0 {
				ga.Balance = append(ga.Balance, types.Balance{Coin: c, Value: bal[name][c].String()})
			}
		}
		st.Accounts = append(st.Accounts, ga)
	}

	// coins
	for _, c := range w.Coins {
		v := vol[c.ID]
		if v == nil {
			v = big.NewInt(0)
		}
		gc := types.Coin{ID: c.ID, Name: c.Symbol + " coin", Symbol: types.StrToCoinSymbol(c.Symbol), Volume: v.String(), Crr: c.Crr, Mintable: c.Mintable, Burnable: c.Burnable}
		if c.Max == "" {
			gc.MaxSupply = "1000000000000000000000000000000000"
		} else {
			gc.MaxSupply = amt(c.Max).String()
		}
		if c.Crr != 0 {
			gc.Reserve = amt(c.Reserve).String()
		}
		if c.Owner != "" {
			a := n.Addr(c.Owner)
			gc.OwnerAddress = &a
		}
		st.Coins = append(st.Coins, gc)
	}
	for _, c := range lpCoins {
		v := vol[c.ID]
		c.Volume = v.String()
		st.Coins = append(st.Coins, c)
	}
	sort.Slice(st.Coins, func(i, j int) bool { return st.Coins[i].ID < st.Coins[j].ID })

	priceCoin := uint64(0)
	if w.PriceCoin != "" {
		priceCoin = cid(w.PriceCoin)
	}
	st.Commission = commissionToGenesis(priceCoin, PriceTable(w.PriceMode, U, 0))
	st.Emission = amt(w.Emission).String()
	if w.PrevReward != nil {
		st.PrevReward = types.RewardPrice{Time: w.PrevReward.Time, AmountBIP: amt(w.PrevReward.BIP).String(), AmountUSDT: amt(w.PrevReward.USDT).String(), Off: w.PrevReward.Off, Reward: amt(w.PrevReward.Reward).String()}
	} else {
		st.PrevReward = types.RewardPrice{Time: 0, AmountBIP: "350", AmountUSDT: "1", Off: false, Reward: amt("79u").String()}
	}
	vers := w.Versions
	if len(vers) == 0 {
		vers = []string{"v300", "v310", "v320", "v330"}
	}
	// v330's version height h makes the legacy stake-fix run at payout heights in (h+1, h+1+period); choosing
	// h+1 a multiple of the period keeps that window free of payout heights (h <= initial-1).
	vh := uint64(0)
	if k := uint64(w.InitialHeight) / w.StakePeriod; k > 0 {
		vh = k*w.StakePeriod - 1
	}
	for _, v := range vers {
		st.Versions = append(st.Versions, types.Version{Name: v, Height: vh})
	}
	return st
}

// StandardWorld returns one of the predefined worlds.
func StandardWorld(name string) *World {
	accs := func(k int, bal map[string]string) []GenAccount {
		var out []GenAccount
		for i := 1; i <= k; i++ {
			b := map[string]string{}
			for s, v := range bal {
				b[s] = v
			}
			out = append(out, GenAccount{Name: fmt.Sprintf("a%d", i), Bal: b})
		}
		return out
	}
	switch name {
	case "W1", "":
		w := &World{Name: "W1", StakePeriod: 6, ExpirePeriod: 5, InitialHeight: 101}
		w.Accounts = accs(4, map[string]string{"BIP": "1000000u"})
		w.Accounts = append(w.Accounts, GenAccount{Name: "o1", Bal: map[string]string{"BIP": "100u"}})
		w.Candidates = []GenCandidate{{Name: "v1", Owner: "o1", Reward: "o1", Control: "o1", Commission: 10, Validator: true, Stakes: []GenStake{{Owner: "o1", Coin: "BIP", Value: "1000u"}}}}
		return w
	case "W1s", "W1u": // the model's genesis (MCLedger.Genesis): balances 3, 3, 1 units; W1u has every price = one unit
		w := &World{Name: name, StakePeriod: 1000, ExpirePeriod: 1000, InitialHeight: 101}
		w.Accounts = accs(3, map[string]string{"BIP": "3u"})
		w.Accounts[2].Bal["BIP"] = "1u"
		w.PrevReward = &GenPrevReward{Time: 0, BIP: "350", USDT: "1", Reward: "1u"}
		if name == "W1u" {
			w.PriceMode = "unit"
		}
		w.Accounts = append(w.Accounts, GenAccount{Name: "o1", Bal: map[string]string{"BIP": "30000u"}}) // enough for the reserve of a coin
		w.Candidates = []GenCandidate{{Name: "v1", Owner: "o1", Reward: "o1", Control: "o1", Commission: 10, Validator: true, Stakes: []GenStake{{Owner: "o1", Coin: "BIP", Value: "1000u"}}}}
		return w
	case "WD": // durability: short periods so that payouts, validator updates and price updates happen every other block
		w := &World{Name: "WD", StakePeriod: 2, ExpirePeriod: 3, InitialHeight: 201, KeepStates: 2}
		w.Accounts = accs(4, map[string]string{"BIP": "1000000u"})
		for i := 1; i <= 2; i++ {
			o := fmt.Sprintf("o%d", i)
			w.Accounts = append(w.Accounts, GenAccount{Name: o, Bal: map[string]string{"BIP": "10000u"}})
			w.Candidates = append(w.Candidates, GenCandidate{Name: fmt.Sprintf("v%d", i), Owner: o, Reward: o, Control: o, Commission: uint64(10 * i), Validator: true,
				Stakes: []GenStake{{Owner: o, Coin: "BIP", Value: fmt.Sprintf("%du", 2000*i)}, {Owner: "a4", Coin: "BIP", Value: "500u"}}})
		}
		withUSDT(w)
		return w
	case "W2", "W2u": // W2u: the genesis of the staking model (MCStaking.Genesis), every price = one unit
		w := &World{Name: name, StakePeriod: 6, ExpirePeriod: 5, InitialHeight: 10197400}
		if name == "W2u" {
			w.PriceMode = "unit"
		}
		w.Accounts = accs(6, map[string]string{"BIP": "1000000u"})
		for i := 1; i <= 4; i++ {
			o := fmt.Sprintf("o%d", i)
			w.Accounts = append(w.Accounts, GenAccount{Name: o, Bal: map[string]string{"BIP": "10000u"}})
			w.Candidates = append(w.Candidates, GenCandidate{Name: fmt.Sprintf("v%d", i), Owner: o, Reward: o, Control: o, Commission: uint64(10 * i), Validator: true,
				Stakes: []GenStake{{Owner: o, Coin: "BIP", Value: fmt.Sprintf("%du", 1000*i)}}})
		}
		w.Candidates[1].Control = "a6" // v2's control address differs from its owner
		w.Waitlist = []GenWait{{Owner: "a1", Cand: "v1", Coin: "BIP", Value: "70u"}, {Owner: "a2", Cand: "v3", Coin: "BIP", Value: "15u"}}
		w.Frozen = []GenFrozen{{Height: 10197400 + 40, Owner: "a3", Cand: "v2", Coin: "BIP", Value: "25u"}, {Height: 10197400 + 9, Owner: "a3", Cand: "v4", Coin: "BIP", Value: "5u", MoveTo: "v1"}}
		w.Candidates = append(w.Candidates, GenCandidate{Name: "c5", Owner: "a5", Reward: "a5", Control: "a5", Commission: 5, Online: false,
			Stakes: []GenStake{{Owner: "a5", Coin: "BIP", Value: "1500u"}}})
		withUSDT(w)
		return w
	}
	if f, ok := extraWorlds[name]; ok {
		return f()
	}
	if strings.HasPrefix(name, "WR") {
		return rewardWorld(name)
	}
	panic("unknown world " + name)
}

// withUSDT adds the USDT token (coin id 1993) and the BIP/USDT pool the reward price rule reads.
func withUSDT(w *World) {
	w.Coins = append(w.Coins, GenCoin{ID: 1993, Symbol: "USDTE", Crr: 0, Max: "", Owner: "", Mintable: true, Burnable: true})
	w.Pools = append(w.Pools, GenPool{Coin0: "BIP", Coin1: "USDTE", Reserve0: "1000000u", Reserve1: "10000u", Holders: map[string]string{"a1": "100000u"}})
}

// rewardWorld: WD (stake period 2, BIP/USDT pool) with the knobs of the block-reward rule (C28) in the world's name:
//
//	WR/p=10/pbip=905000/pusdt=10000/off=1/last=40/ptime=3600/em=cap-250
//
// p: pool price in thousandths USDT per BIP (pool = 1 000 000 BIP : p*1000 USDT); pbip/pusdt: reserves remembered by the
// previous price record (default: the pool's); off/last: its switched-off flag and last reward (BIP); ptime: its age in
// seconds at the first block (default: never updated); em: emission at genesis in BIP, or cap-<n>.
func rewardWorld(name string) *World {
	w := StandardWorld("WD")
	w.Name = name
	kv := map[string]string{}
	for _, part := range strings.Split(name, "/")[1:] {
		if i := strings.Index(part, "="); i > 0 {
			kv[part[:i]] = part[i+1:]
		}
	}
	get := func(k, d string) string {
		if v, ok := kv[k]; ok {
			return v
		}
		return d
	}
	p := get("p", "10")
	for i := range w.Pools {
		if w.Pools[i].Coin1 == "USDTE" {
			w.Pools[i].Reserve0 = "1000000u"
			w.Pools[i].Reserve1 = p + "000u"
		}
	}
	for i := range w.Accounts {
		if strings.HasPrefix(w.Accounts[i].Name, "a") {
			w.Accounts[i].Bal["USDTE"] = "1000000u"
			w.Accounts[i].Bal["BIP"] = "100000000u"
		}
	}
	pr := &GenPrevReward{BIP: get("pbip", "1000000") + "u", USDT: get("pusdt", p+"000") + "u", Reward: get("last", "110") + "u", Off: get("off", "0") == "1"}
	if t := get("ptime", ""); t != "" {
		var sec int64
		fmt.Sscan(t, &sec)
		w.defaults()
		pr.Time = uint64(w.StartTime-sec) * 1000000000
	}
	w.PrevReward = pr
	if em := get("em", ""); em != "" {
		if strings.HasPrefix(em, "cap-") {
			w.Emission = "10000000000u-" + em[4:] + "u"
		} else {
			w.Emission = em + "u"
		}
	}
	return w
}
