package hz

import (
	"bytes"
	"encoding/hex"
	"fmt"
	"os"
	"sort"

	"github.com/MinterTeam/minter-go-node/coreV2/types"
	"github.com/cosmos/cosmos-sdk/snapshots"
	abci "github.com/tendermint/tendermint/abci/types"
)

// attachSnapshots wires a state-sync snapshot store into the node the way cmd/minter/cmd/node.go does.
func (nd *Node) attachSnapshots() {
	dir := nd.Home + "/snapchunks"
	if err := os.MkdirAll(dir, 0o755); err != nil {
		panic(err)
	}
	store, err := snapshots.NewStore(nd.Disk.Snap, dir)
	if err != nil {
		panic(err)
	}
	nd.App.SetSnapshotStore(store, nd.Snap, 3)
}

// NewBlankNode boots a node over empty databases without InitChain (the target of a state sync).
func NewBlankNode(id string, w *World, n *Names, backend, dir string, snap int) (*Node, CallResult) {
	types.CurrentChainID = types.ChainTestnet
	nd := &Node{ID: id, W: w, N: n, Home: dir, Snap: snap}
	nd.Disk = NewDisk(backend, dir)
	res := guard(func() { nd.boot() })
	return nd, res
}

func snapshotAt(nd *Node, h uint64) *abci.Snapshot {
	var out *abci.Snapshot
	for _, s := range nd.App.ListSnapshots(abci.RequestListSnapshots{}).Snapshots {
		if s.Height == h {
			out = s
		}
	}
	return out
}

func snapDigest(s *abci.Snapshot) string {
	if s == nil {
		return "none"
	}
	return fmt.Sprintf("h%d/f%d/c%d/%s/%s", s.Height, s.Format, s.Chunks, hex.EncodeToString(s.Hash), shortHash(s.Metadata))
}

// stateSync plays Tendermint's part of a state sync at the current height: the snapshot node A took at c.h is offered to a
// blank node B chunk by chunk; B then replaces A for the rest of the scenario (the ideal twin keeps executing every block).
func (c *runCtx) stateSync(back int) {
	a := c.nd
	if back > 1 || (back == 1 && (c.last == nil || c.last.h != c.h)) {
		back = 0
	}
	h0 := c.h - uint64(back)
	rec := c.rec("Restored", h0)
	c.twinObs(rec)
	var sa *abci.Snapshot
	res := guard(func() {
		a.waitSnapshots(true)
		sa = snapshotAt(a, h0)
	})
	if res.Panic != "" || sa == nil {
		rec.Kind = "BuildError"
		rec.Panic = "harness: no snapshot at the current height: " + res.Panic
		c.dead = true
		c.r.emit(rec)
		return
	}
	if rec.Obs != nil {
		rec.Obs.Snap = snapDigest(sa)
		if c.id != nil && !c.idead {
			ires := guard(func() {
				c.id.App.VerifWaitSnapshots()
				rec.Ideal.Snap = snapDigest(snapshotAt(c.id, h0))
			})
			if ires.Panic != "" {
				rec.Ideal.Panic = ires.Panic
			}
		}
	}
	var appHash []byte
	if info, ires := a.Info(); ires.Panic == "" {
		appHash = info.LastBlockAppHash
	}
	c.r.seq++
	b, bres := NewBlankNode("B", a.W, a.N, a.Disk.Backend, fmt.Sprintf("%s/n%d", c.r.WorkDir, c.r.seq), a.Snap)
	if c.fail(rec, bres) {
		b.Close()
		c.r.emit(rec)
		return
	}
	res = guard(func() {
		offer := b.App.OfferSnapshot(abci.RequestOfferSnapshot{Snapshot: sa, AppHash: appHash})
		if offer.Result != abci.ResponseOfferSnapshot_ACCEPT {
			panic("snapshot offer not accepted: " + offer.Result.String())
		}
		for i := uint32(0); i < sa.Chunks; i++ {
			ch := a.App.LoadSnapshotChunk(abci.RequestLoadSnapshotChunk{Height: sa.Height, Format: sa.Format, Chunk: i})
			if len(ch.Chunk) == 0 {
				panic(fmt.Sprintf("producer returned an empty chunk %d", i))
			}
			ap := b.App.ApplySnapshotChunk(abci.RequestApplySnapshotChunk{Index: i, Chunk: ch.Chunk, Sender: "A"})
			if ap.Result != abci.ResponseApplySnapshotChunk_ACCEPT {
				panic(fmt.Sprintf("chunk %d not accepted: %s", i, ap.Result.String()))
			}
		}
	})
	a.Close()
	c.nd = b
	if !c.fail(rec, res) {
		if info, ires := b.Info(); ires.Panic == "" {
			rec.Hash = hex.EncodeToString(info.LastBlockAppHash)
			rec.Resp.Gas = info.LastBlockHeight
			if rec.Obs != nil {
				rec.Obs.Hash, rec.Obs.Height = rec.Hash, info.LastBlockHeight
			}
		}
		ar := ReadAppRecords(b.Disk)
		rec.App = &ar
		if rec.Obs != nil && back == 1 {
			// the twin is one block ahead: the reference values of height h0 are the producer's own commit record of h0
			rec.Ideal.Height, rec.Ideal.Hash = int64(h0), c.hashAt[h0]
			rec.Obs.Vals, rec.Obs.Emission, rec.Obs.Versions, rec.Obs.Price = ar.Vals, ar.Emission, digest(ar.Versions), digest(ar.Price)
			rec.Ideal.Vals, rec.Ideal.Emission, rec.Ideal.Versions, rec.Ideal.Price = rec.Obs.Vals, rec.Obs.Emission, rec.Obs.Versions, rec.Obs.Price
		}
		if rec.Obs != nil && back == 0 {
			c.infoObs(rec)
			rec.Obs.Vals = ar.Vals
			rec.Obs.Emission = ar.Emission
			rec.Obs.Versions = digest(ar.Versions)
			rec.Obs.Price = digest(ar.Price)
			if c.id != nil && !c.idead {
				ir := ReadAppRecords(c.id.Disk)
				rec.Ideal.Vals, rec.Ideal.Emission, rec.Ideal.Versions, rec.Ideal.Price = ir.Vals, ir.Emission, digest(ir.Versions), digest(ir.Price)
			}
		}
	}
	c.r.emit(rec)
	c.r.Stats["statesyncs"]++
	if back == 1 && !c.dead {
		// the restored node catches up: Tendermint delivers the block the producer had already committed
		bb := c.last
		rp := c.rec("Replayed", bb.h)
		rp.Replay = true
		c.twinObs(rp)
		r2 := b.Begin(bb.req)
		for _, raw := range bb.raws {
			if r2.Panic != "" {
				break
			}
			_, r2 = b.Deliver(raw)
		}
		if r2.Panic == "" {
			_, r2 = b.End(bb.h)
		}
		var cr abci.ResponseCommit
		if r2.Panic == "" {
			cr, r2 = b.Commit()
		}
		if !c.fail(rp, r2) {
			rp.Hash = hex.EncodeToString(cr.Data)
			c.infoObs(rp)
			c.diskProjection(rp)
			c.proj(rp, bb.h)
		}
		c.r.emit(rp)
	}
}

// RoundTrip is what an export/import round trip is judged on (C11): the exported state in the order-free form in which
// two chains can be compared. Import folds pending stake updates into stakes, recomputes base-coin values and renumbers
// nothing; the block-time window (max gas) is not part of a genesis.
type RoundTrip struct {
	VerifyErr string            `json:"verifyErr"`
	Folded    bool              `json:"folded"` // the export was not taken at a stake-recalculation height or had pending stake updates: stake-derived values are compared at the import only
	D         string            `json:"d"`      // digest of the normalised state
	Fields    map[string]string `json:"fields"` // digest per top-level field, to name what differs
}

// normalise gives the order-free form of a state. With `folded` the values that the import recalculates one period early
// (stakes, validators, the reward remainder in total slashed) are left out.
func normalise(a *Abs, folded bool) map[string]interface{} {
	m := normaliseAll(a)
	if folded {
		// stakes and validators are recalculated by the import one period early; punishments, payouts and maturities carry the
		// difference into frozen funds, the wait list, total slashed and balances
		for _, f := range []string{"cands", "vals", "slashed", "frozen", "wait", "bal"} {
			delete(m, f)
		}
	}
	return m
}

func normaliseAll(a *Abs) map[string]interface{} {
	cands := map[string]interface{}{}
	for p, cd := range a.Cands {
		sum := map[string]string{}
		for _, lst := range [][]AbsStake{cd.Stakes, cd.Upd} {
			for _, s := range lst {
				k := s.O + "/" + s.C
				cur := ParseAmount(orZero(sum[k]), nil)
				sum[k] = cur.Add(cur, ParseAmount(s.V, nil)).String()
			}
		}
		for k, v := range sum {
			if v == "0" {
				delete(sum, k)
			}
		}
		cands[p] = map[string]interface{}{"id": cd.ID, "owner": cd.Owner, "control": cd.Control, "reward": cd.Reward, "status": cd.Status,
			"jailedUntil": cd.JailedUntil, "comm": cd.Comm, "lastEdit": cd.LastEdit, "stakes": sum}
	}
	vals := []string{}
	for _, v := range a.Vals {
		vals = append(vals, fmt.Sprintf("%s/%s/%d/%v/%v", v.P, v.Accum, v.Absent, v.Bits, v.ToDrop))
	}
	sort.Strings(vals)
	return map[string]interface{}{
		"bal": a.Bal, "nonce": a.Nonce, "lockUntil": a.LockUntil, "msig": a.Msig, "coins": a.Coins, "nextCoin": a.NextCoin, "cands": cands,
		"wait": a.Wait, "frozen": a.Frozen, "pools": a.Pools, "orders": a.Orders, "nextOrder": a.NextOrder, "checksUsed": a.ChecksUsed,
		"haltVotes": a.HaltVotes, "commVotes": a.CommVotes, "updVotes": a.UpdVotes, "price": a.Price, "priceCoin": a.PriceCoin, "vals": vals,
		"slashed": a.Slashed, "deleted": a.Deleted, "blocked": a.Blocked,
	}
}

func orZero(s string) string {
	if s == "" {
		return "0"
	}
	return s
}

func roundTripOf(a *Abs, folded bool) *RoundTrip {
	n := normalise(a, folded)
	rt := &RoundTrip{D: digest(n), Fields: map[string]string{}}
	for k, v := range n {
		rt.Fields[k] = digest(v)
	}
	return rt
}

// exportImport composes a genesis from the committed state of node A the way `minter export` does, validates it, starts a
// new chain B from it (first block = next height of A, so that the two chains stay aligned) and from then on runs A as the
// reference twin of B.
func (c *runCtx) exportImport() {
	a := c.nd
	rec := c.rec("Imported", c.h)
	rec.Obs, rec.Ideal = &Obs{}, &Obs{}
	var gen types.AppState
	var verr error
	res := guard(func() {
		gen = a.App.VerifDeliverState().Export()
		verr = gen.Verify()
		adb := a.App.VerifAppDB()
		for _, v := range adb.GetVersions() {
			gen.Versions = append(gen.Versions, types.Version{Height: v.Height, Name: v.Name})
		}
		gen.Emission = adb.Emission().String()
		t, r0, r1, reward, off := adb.GetPrice()
		gen.PrevReward = types.RewardPrice{Time: uint64(t.UTC().UnixNano()), AmountBIP: r0.String(), AmountUSDT: r1.String(), Off: off, Reward: reward.String()}
	})
	if c.fail(rec, res) {
		c.r.emit(rec)
		return
	}
	c.u.AbsorbExport(&gen)
	da := ProjectDisk(a, &gen, c.u)
	for _, cd := range gen.Candidates {
		if len(cd.Updates) > 0 {
			c.folded = true
		}
	}
	if c.h%a.W.StakePeriod != 0 {
		c.folded = true // InitChain recomputes the validator set at once; the original chain does so at the next period boundary
	}
	rec.RT = roundTripOf(da, false)
	rec.RT.Folded = c.folded
	if verr != nil {
		rec.RT.VerifyErr = verr.Error()
	}
	c.r.seq++
	b, bres := NewNodeFromGenesis("B", a.W, a.N, gen, int64(c.h)+1, "mem", fmt.Sprintf("%s/n%d", c.r.WorkDir, c.r.seq))
	if bres.Panic != "" {
		rec.Panic = "import: " + bres.Panic
		rec.Stack = bres.Stack
		c.dead = true
		b.Close()
		c.r.emit(rec)
		return
	}
	var db *Abs
	res = guard(func() {
		st := b.App.VerifDeliverState().Export()
		db = ProjectDisk(b, &st, c.u)
	})
	if c.fail(rec, res) {
		b.Close()
		c.r.emit(rec)
		return
	}
	rec.RT2 = roundTripOf(db, false)
	rec.Obs.Emission, rec.Ideal.Emission = db.Emission, da.Emission
	// from here on B is the node under observation and A its reference
	if c.id != nil {
		c.id.Close()
	}
	c.id, c.iu = a, c.u
	c.idead = false
	c.nd = b
	c.u = NewUniverse()
	c.u.Checks = c.iu.Checks
	c.u.AbsorbExport(&gen)
	for h := range c.iu.Heights {
		c.u.Heights[h] = true
	}
	for h := range c.iu.VoteH {
		c.u.VoteH[h] = true
	}
	c.imported = true
	// re-base the trace on the new chain's state
	db.H = c.h
	rec.Disk = db
	if pres := guard(func() { rec.St = ProjectMem(b, c.u, c.h) }); pres.Panic != "" {
		rec.Panic = "projection: " + pres.Panic
		c.dead = true
	}
	c.r.emit(rec)
	c.r.Stats["imports"]++
}

var _ = bytes.Equal
