package hz

import (
	"context"
	"fmt"
	"math/big"
	"math/rand"
	"os"
	"runtime"
	"runtime/debug"
	"sync"
	"sync/atomic"

	"github.com/MinterTeam/minter-go-node/api/v2/service"
	"github.com/MinterTeam/minter-go-node/coreV2/types"
	pb "github.com/MinterTeam/node-grpc-gateway/api_pb"
)

// readerPool: goroutines that serve read-only API queries against the node while the harness executes ABCI calls (C25).
// The schedule says which query kinds may run during which ABCI phase; inside a phase the Go scheduler interleaves.
type readerPool struct {
	nd       *Node
	kinds    atomic.Value // []string active now
	stop     int32
	wg       sync.WaitGroup
	mu       sync.Mutex
	panics   []string
	served   map[string]int
	lastH    uint64 // last committed height (for queries at a height)
	addrs    []types.Address
	coinIDs  []uint64
	pubs     []types.Pubkey
	schedule map[string][]string
	svc      *service.Service // the node's own API handlers (query kind "api")
}

func newReaderPool(nd *Node, n int, schedule map[string][]string, seed int64) *readerPool {
	p := &readerPool{nd: nd, served: map[string]int{}, schedule: schedule}
	p.kinds.Store([]string{})
	p.svc = service.NewService(nd.App, nil, nil, nd.cfg(), "verif", nil)
	for _, name := range []string{"a1", "a2", "a3", "a4", "a5", "o1", "o2", "zero", "dao"} {
		p.addrs = append(p.addrs, nd.N.Addr(name))
	}
	for _, v := range []string{"v1", "v2", "v3", "v4", "c5"} {
		p.pubs = append(p.pubs, nd.N.Pub(v))
	}
	ids := nd.W.coinIDs()
	for _, id := range ids {
		p.coinIDs = append(p.coinIDs, id)
	}
	for i := 0; i < n; i++ {
		p.wg.Add(1)
		go p.loop(rand.New(rand.NewSource(seed + int64(i)*7919)))
	}
	return p
}

func (p *readerPool) setPhase(phase string) {
	ks := p.schedule[phase]
	if ks == nil {
		ks = []string{}
	}
	p.kinds.Store(ks)
}

func (p *readerPool) close() {
	atomic.StoreInt32(&p.stop, 1)
	p.wg.Wait()
}

// takePanics returns and clears what the readers recovered from since the last call.
func (p *readerPool) takePanics() []string {
	p.mu.Lock()
	defer p.mu.Unlock()
	out := p.panics
	p.panics = nil
	return out
}

func (p *readerPool) loop(rnd *rand.Rand) {
	defer p.wg.Done()
	for atomic.LoadInt32(&p.stop) == 0 {
		ks := p.kinds.Load().([]string)
		if len(ks) == 0 {
			runtime.Gosched()
			continue
		}
		k := ks[rnd.Intn(len(ks))]
		p.one(k, rnd)
	}
}

func (p *readerPool) one(kind string, rnd *rand.Rand) {
	defer func() {
		if r := recover(); r != nil {
			if os.Getenv("VERIF_DEBUG_PANIC") != "" {
				fmt.Fprintf(os.Stderr, "READER PANIC %s: %v\n%s\n", kind, r, debug.Stack())
			}
			p.mu.Lock()
			if len(p.panics) < 5 {
				p.panics = append(p.panics, fmt.Sprintf("query %s: %v", kind, r))
			}
			p.mu.Unlock()
		}
	}()
	cs := p.nd.App.CurrentState()
	if cs == nil {
		return
	}
	amount := new(big.Int).Mul(big.NewInt(int64(1+rnd.Intn(5000))), big.NewInt(1e18))
	coin := func() types.CoinID { return types.CoinID(p.coinIDs[rnd.Intn(len(p.coinIDs))]) }
	switch kind {
	case "balance":
		a := p.addrs[rnd.Intn(len(p.addrs))]
		_ = cs.Accounts().GetBalances(a)
		_ = cs.Accounts().GetNonce(a)
		_ = cs.WaitList().GetByAddress(a)
	case "candidates":
		for _, c := range cs.Candidates().GetCandidates() {
			_ = cs.Candidates().GetStakes(c.PubKey)
			_ = cs.Candidates().GetTotalStake(c.PubKey)
		}
		_ = cs.Validators().GetValidators()
	case "pools":
		for _, pl := range cs.Swap().SwapPools(context.Background()) {
			_, _ = pl.Reserves()
		}
		c0, c1 := coin(), coin()
		if c0 != c1 {
			_, _, _ = cs.Swap().SwapPool(c0, c1)
		}
	case "route":
		c0, c1 := coin(), coin()
		if c0 != c1 {
			if rnd.Intn(2) == 0 {
				_ = cs.Swap().GetBestTradeExactIn(context.Background(), uint64(c1), uint64(c0), amount, 4)
			} else {
				_ = cs.Swap().GetBestTradeExactOut(context.Background(), uint64(c0), uint64(c1), amount, 4)
			}
		}
	case "estimate":
		c0, c1 := coin(), coin()
		if c0 != c1 && cs.Swap().SwapPoolExist(c0, c1) {
			pair := cs.Swap().GetSwapper(c0, c1)
			_, _ = pair.CalculateBuyForSellWithOrders(amount)
			_, _ = pair.CalculateSellForBuyWithOrders(amount)
		}
		if c := cs.Coins().GetCoin(c0); c != nil {
			_ = c.Reserve()
		}
	case "orders":
		_ = cs.Swap().GetOrder(uint32(1 + rnd.Intn(12)))
		c0, c1 := coin(), coin()
		if c0 != c1 && cs.Swap().SwapPoolExist(c0, c1) {
			_ = cs.Swap().GetSwapper(c0, c1).OrdersSell(10)
		}
	case "frozen":
		h := atomic.LoadUint64(&p.lastH)
		_ = cs.FrozenFunds().GetFrozenFunds(h + uint64(rnd.Intn(40)))
		_ = cs.Halts().GetHaltBlocks(h + uint64(rnd.Intn(4)))
	case "api":
		// the handlers the gRPC gateway calls (current height): they read through the same state objects block execution writes
		ctx := context.Background()
		a := p.addrs[rnd.Intn(len(p.addrs))]
		switch rnd.Intn(9) {
		case 0:
			_, _ = p.svc.Address(ctx, &pb.AddressRequest{Address: a.String(), Delegated: true})
		case 1:
			_, _ = p.svc.Addresses(ctx, &pb.AddressesRequest{Addresses: []string{a.String(), p.addrs[rnd.Intn(len(p.addrs))].String()}, Delegated: rnd.Intn(2) == 0})
		case 2:
			_, _ = p.svc.Candidates(ctx, &pb.CandidatesRequest{IncludeStakes: true})
		case 3:
			_, _ = p.svc.Candidate(ctx, &pb.CandidateRequest{PublicKey: p.pubs[rnd.Intn(len(p.pubs))].String()})
		case 4:
			c0, c1 := coin(), coin()
			_, _ = p.svc.SwapPool(ctx, &pb.SwapPoolRequest{Coin0: uint64(c0), Coin1: uint64(c1)})
			_, _ = p.svc.LimitOrdersOfPool(ctx, &pb.LimitOrdersOfPoolRequest{SellCoin: uint64(c0), BuyCoin: uint64(c1), Limit: 10})
		case 5:
			_, _ = p.svc.BestTrade(ctx, &pb.BestTradeRequest{SellCoin: uint64(coin()), BuyCoin: uint64(coin()), Amount: amount.String(), Type: pb.BestTradeRequest_Type(rnd.Intn(2)), MaxDepth: 4})
		case 6:
			_, _ = p.svc.EstimateCoinSell(ctx, &pb.EstimateCoinSellRequest{Sell: &pb.EstimateCoinSellRequest_CoinIdToSell{CoinIdToSell: uint64(coin())},
				Buy: &pb.EstimateCoinSellRequest_CoinIdToBuy{CoinIdToBuy: uint64(coin())}, ValueToSell: amount.String(), SwapFrom: pb.SwapFrom(rnd.Intn(3))})
		case 7:
			_, _ = p.svc.Frozen(ctx, &pb.FrozenRequest{Address: a.String()})
			_, _ = p.svc.WaitList(ctx, &pb.WaitListRequest{Address: a.String()})
		case 8:
			_, _ = p.svc.CoinInfoById(ctx, &pb.CoinIdRequest{Id: uint64(coin())})
			_, _ = p.svc.SwapPools(ctx, &pb.SwapPoolsRequest{Orders: true})
		}
	case "export":
		h := atomic.LoadUint64(&p.lastH)
		if h > 0 {
			if st, err := p.nd.App.GetStateForHeight(h); err == nil && st != nil {
				_ = st.Export()
			}
		}
	}
	p.mu.Lock()
	p.served[kind]++
	p.mu.Unlock()
}
