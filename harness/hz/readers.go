package hz

import (
	"context"
	"fmt"
	"math/big"
	"math/rand"
	"os"
	"runtime"
	"runtime/debug"
	"sync"
	"sync/atomic"

	"github.com/MinterTeam/minter-go-node/coreV2/types"
)

// readerPool: goroutines that serve read-only API queries against the node while the harness executes ABCI calls (C25).
// The schedule says which query kinds may run during which ABCI phase; inside a phase the Go scheduler interleaves.
type readerPool struct {
	nd       *Node
	kinds    atomic.Value // []string active now
	stop     int32
	wg       sync.WaitGroup
	mu       sync.Mutex
	panics   []string
	served   map[string]int
	lastH    uint64 // last committed height (for queries at a height)
	addrs    []types.Address
	coinIDs  []uint64
	pubs     []types.Pubkey
	schedule map[string][]string
}

func newReaderPool(nd *Node, n int, schedule map[string][]string, seed int64) *readerPool {
	p := &readerPool{nd: nd, served: map[string]int{}, schedule: schedule}
	p.kinds.Store([]string{})
	for _, name := range []string{"a1", "a2", "a3", "a4", "a5", "o1", "o2", "zero", "dao"} {
		p.addrs = append(p.addrs, nd.N.Addr(name))
	}
	for _, v := range []string{"v1", "v2", "v3", "v4", "c5"} {
		p.pubs = append(p.pubs, nd.N.Pub(v))
	}
	ids := nd.W.coinIDs()
	for _, id := range ids {
		p.coinIDs = append(p.coinIDs, id)
	}
	for i := 0; i < n; i++ {
		p.wg.Add(1)
		go p.loop(rand.New(rand.NewSource(seed + int64(i)*7919)))
	}
	return p
}

func (p *readerPool) setPhase(phase string) {
	ks := p.schedule[phase]
	if ks == nil {
		ks = []string{}
	}
	p.kinds.Store(ks)
}

func (p *readerPool) close() {
	atomic.StoreInt32(&p.stop, 1)
	p.wg.Wait()
}

// takePanics returns and clears what the readers recovered from since the last call.
func (p *readerPool) takePanics() []string {
	p.mu.Lock()
	defer p.mu.Unlock()
	out := p.panics
	p.panics = nil
	return out
}

func (p *readerPool) loop(rnd *rand.Rand) {
	defer p.wg.Done()
	for atomic.LoadInt32(&p.stop) == 0 {
		ks := p.kinds.Load().([]string)
		if len(ks) == 0 {
			runtime.Gosched()
			continue
		}
		k := ks[rnd.Intn(len(ks))]
		p.one(k, rnd)
	}
}

func (p *readerPool) one(kind string, rnd *rand.Rand) {
	defer func() {
		if r := recover(); r != nil {
			if os.Getenv("VERIF_DEBUG_PANIC") != "" {
				fmt.Fprintf(os.Stderr, "READER PANIC %s: %v\n%s\n", kind, r, debug.Stack())
			}
			p.mu.Lock()
			if len(p.panics) < 5 {
				p.panics = append(p.panics, fmt.Sprintf("query %s: %v", kind, r))
			}
			p.mu.Unlock()
		}
	}()
	cs := p.nd.App.CurrentState()
	if cs == nil {
		return
	}
	amount := new(big.Int).Mul(big.NewInt(int64(1+rnd.Intn(5000))), big.NewInt(1e18))
	coin := func() types.CoinID { return types.CoinID(p.coinIDs[rnd.Intn(len(p.coinIDs))]) }
	switch kind {
	case "balance":
		a := p.addrs[rnd.Intn(len(p.addrs))]
		_ = cs.Accounts().GetBalances(a)
		_ = cs.Accounts().GetNonce(a)
		_ = cs.WaitList().GetByAddress(a)
	case "candidates":
		for _, c := range cs.Candidates().GetCandidates() {
			_ = cs.Candidates().GetStakes(c.PubKey)
			_ = cs.Candidates().GetTotalStake(c.PubKey)
		}
		_ = cs.Validators().GetValidators()
	case "pools":
		for _, pl := range cs.Swap().SwapPools(context.Background()) {
			_, _ = pl.Reserves()
		}
		c0, c1 := coin(), coin()
		if c0 != c1 {
			_, _, _ = cs.Swap().SwapPool(c0, c1)
		}
	case "route":
		c0, c1 := coin(), coin()
		if c0 != c1 {
			if rnd.Intn(2) == 0 {
				_ = cs.Swap().GetBestTradeExactIn(context.Background(), uint64(c1), uint64(c0), amount, 4)
			} else {
				_ = cs.Swap().GetBestTradeExactOut(context.Background(), uint64(c0), uint64(c1), amount, 4)
			}
		}
	case "estimate":
		c0, c1 := coin(), coin()
		if c0 != c1 && cs.Swap().SwapPoolExist(c0, c1) {
			pair := cs.Swap().GetSwapper(c0, c1)
			_, _ = pair.CalculateBuyForSellWithOrders(amount)
			_, _ = pair.CalculateSellForBuyWithOrders(amount)
		}
		if c := cs.Coins().GetCoin(c0); c != nil {
			_ = c.Reserve()
		}
	case "orders":
		_ = cs.Swap().GetOrder(uint32(1 + rnd.Intn(12)))
		c0, c1 := coin(), coin()
		if c0 != c1 && cs.Swap().SwapPoolExist(c0, c1) {
			_ = cs.Swap().GetSwapper(c0, c1).OrdersSell(10)
		}
	case "frozen":
		h := atomic.LoadUint64(&p.lastH)
		_ = cs.FrozenFunds().GetFrozenFunds(h + uint64(rnd.Intn(40)))
		_ = cs.Halts().GetHaltBlocks(h + uint64(rnd.Intn(4)))
	case "export":
		h := atomic.LoadUint64(&p.lastH)
		if h > 0 {
			if st, err := p.nd.App.GetStateForHeight(h); err == nil && st != nil {
				_ = st.Export()
			}
		}
	}
	p.mu.Lock()
	p.served[kind]++
	p.mu.Unlock()
}
