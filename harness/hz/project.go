package hz

import (
	"context"
	"crypto/sha256"
	"encoding/hex"
	"encoding/json"
	"fmt"
	"math/big"
	"sort"
	"strconv"

	"github.com/MinterTeam/minter-go-node/coreV2/check"
	"github.com/MinterTeam/minter-go-node/coreV2/state/commission"
	"github.com/MinterTeam/minter-go-node/coreV2/types"
	"github.com/MinterTeam/minter-go-node/rlp"
)

// Abs is the abstract state shared by the memory and the disk projection. Amounts are decimal strings.
type Abs struct {
	H          uint64                       `json:"h"`
	Bal        map[string]map[string]string `json:"bal"`
	Nonce      map[string]uint64            `json:"nonce"`
	LockUntil  map[string]uint64            `json:"lockUntil"`
	Msig       map[string]AbsMsig           `json:"msig"`
	Coins      map[string]AbsCoin           `json:"coins"`
	NextCoin   uint64                       `json:"nextCoin"`
	Cands      map[string]AbsCand           `json:"cands"`
	Wait       []AbsWait                    `json:"wait"`
	Frozen     []AbsFrozen                  `json:"frozen"`
	Pools      map[string]AbsPool           `json:"pools"`
	Orders     map[string]AbsOrder          `json:"orders"`
	NextOrder  uint64                       `json:"nextOrder"`
	ChecksUsed []string                     `json:"checksUsed"`
	HaltVotes  []AbsVote                    `json:"haltVotes"`
	CommVotes  []AbsVote                    `json:"commVotes"`
	UpdVotes   []AbsVote                    `json:"updVotes"`
	Price      map[string]string            `json:"price"`
	PriceCoin  string                       `json:"priceCoin"`
	Vals       []AbsVal                     `json:"vals"`
	RewardPool string                       `json:"rewardPool"`
	Slashed    string                       `json:"slashed"`
	Emission   string                       `json:"emission"`
	Reward     string                       `json:"reward"`
	SafeReward string                       `json:"safeReward"`
	PriceRec   AbsPriceRec                  `json:"priceRec"`
	MaxGas     uint64                       `json:"maxGas"`
	Versions   []AbsVersion                 `json:"versions"`
	Deleted    []string                     `json:"deleted"`
	Blocked    []string                     `json:"blocked"`
}

type AbsMsig struct {
	Threshold uint64            `json:"threshold"`
	Owners    map[string]uint64 `json:"owners"`
	Seq       []string          `json:"seq"`
}

type AbsCoin struct {
	Sym   string `json:"sym"`
	Ver   uint64 `json:"ver"`
	Kind  string `json:"kind"` // bancor | token | lp | base
	Vol   string `json:"vol"`
	Res   string `json:"res"`
	Crr   uint64 `json:"crr"`
	Max   string `json:"max"`
	Owner string `json:"owner"` // "" = none
	Mint  bool   `json:"mint"`
	Burn  bool   `json:"burn"`
}

type AbsStake struct {
	O  string `json:"o"`
	C  string `json:"c"`
	V  string `json:"v"`
	BV string `json:"bv"`
}

type AbsCand struct {
	ID          uint64     `json:"id"`
	Owner       string     `json:"owner"`
	Control     string     `json:"control"`
	Reward      string     `json:"reward"`
	Status      uint64     `json:"status"` // 1 offline, 2 online
	JailedUntil uint64     `json:"jailedUntil"`
	Comm        uint64     `json:"comm"`
	LastEdit    uint64     `json:"lastEdit"`
	Total       string     `json:"total"`
	Stakes      []AbsStake `json:"stakes"`
	Upd         []AbsStake `json:"upd"`
}

type AbsWait struct {
	O  string `json:"o"`
	ID uint64 `json:"id"`
	C  string `json:"c"`
	V  string `json:"v"`
}

type AbsFrozen struct {
	Due uint64 `json:"due"`
	O   string `json:"o"`
	ID  uint64 `json:"id"`
	Key string `json:"key"` // candidate name or "" for a plain lock
	C   string `json:"c"`
	V   string `json:"v"`
	To  uint64 `json:"to"`
}

type AbsPool struct {
	C0 string `json:"c0"`
	C1 string `json:"c1"`
	R0 string `json:"r0"`
	R1 string `json:"r1"`
	LP string `json:"lp"` // id of the pool token coin ("" if unknown)
}

// AbsOrder: the owner escrowed `sell` units of coin sellCoin and wants `buy` units of coin buyCoin.
type AbsOrder struct {
	Pool     string `json:"pool"`
	SellCoin string `json:"sellCoin"`
	BuyCoin  string `json:"buyCoin"`
	Sell     string `json:"sell"`
	Buy      string `json:"buy"`
	Owner    string `json:"owner"`
	H        uint64 `json:"h"`
}

type AbsVote struct {
	H     uint64   `json:"h"`
	Votes []string `json:"votes"`
	What  string   `json:"what"`
}

type AbsVal struct {
	P      string `json:"p"`
	Stake  string `json:"stake"`
	Accum  string `json:"accum"`
	Absent uint64 `json:"absent"`
	Bits   []int  `json:"bits"`
	ToDrop bool   `json:"toDrop"`
}

type AbsPriceRec struct {
	T    string `json:"t"`
	R0   string `json:"r0"`
	R1   string `json:"r1"`
	Last string `json:"last"`
	Off  bool   `json:"off"`
}

type AbsVersion struct {
	Name string `json:"name"`
	H    uint64 `json:"h"`
}

func newAbs() *Abs {
	return &Abs{
		Bal: map[string]map[string]string{}, Nonce: map[string]uint64{}, LockUntil: map[string]uint64{}, Msig: map[string]AbsMsig{},
		Coins: map[string]AbsCoin{}, Cands: map[string]AbsCand{}, Wait: []AbsWait{}, Frozen: []AbsFrozen{}, Pools: map[string]AbsPool{},
		Orders: map[string]AbsOrder{}, ChecksUsed: []string{}, HaltVotes: []AbsVote{}, CommVotes: []AbsVote{}, UpdVotes: []AbsVote{},
		Price: map[string]string{}, Vals: []AbsVal{}, Versions: []AbsVersion{}, Deleted: []string{}, Blocked: []string{},
		RewardPool: "0", Slashed: "0", Emission: "0", Reward: "0", SafeReward: "0", PriceRec: AbsPriceRec{T: "0", R0: "0", R1: "0", Last: "0"},
	}
}

func cstr(c uint64) string { return strconv.FormatUint(c, 10) }

func (a *Abs) sortAll() {
	sort.SliceStable(a.Wait, func(i, j int) bool {
		x, y := a.Wait[i], a.Wait[j]
		if x.O != y.O {
			return x.O < y.O
		}
		if x.ID != y.ID {
			return x.ID < y.ID
		}
		return x.C < y.C
	})
	sort.SliceStable(a.Frozen, func(i, j int) bool {
		x, y := a.Frozen[i], a.Frozen[j]
		if x.Due != y.Due {
			return x.Due < y.Due
		}
		if x.O != y.O {
			return x.O < y.O
		}
		if x.C != y.C {
			return x.C < y.C
		}
		if x.ID != y.ID {
			return x.ID < y.ID
		}
		if x.To != y.To {
			return x.To < y.To
		}
		return x.V < y.V
	})
	for k, c := range a.Cands {
		sortStakes(c.Stakes)
		sortStakes(c.Upd)
		a.Cands[k] = c
	}
	sortVotes(a.HaltVotes)
	sortVotes(a.CommVotes)
	sortVotes(a.UpdVotes)
	sort.Strings(a.ChecksUsed)
	sort.Strings(a.Deleted)
	sort.Strings(a.Blocked)
}

func sortStakes(s []AbsStake) {
	sort.SliceStable(s, func(i, j int) bool {
		if s[i].O != s[j].O {
			return s[i].O < s[j].O
		}
		if s[i].C != s[j].C {
			return s[i].C < s[j].C
		}
		return s[i].V < s[j].V
	})
}

func sortVotes(v []AbsVote) {
	for i := range v {
		sort.Strings(v[i].Votes)
	}
	sort.SliceStable(v, func(i, j int) bool {
		if v[i].H != v[j].H {
			return v[i].H < v[j].H
		}
		return v[i].What < v[j].What
	})
}

func shortHash(b []byte) string {
	h := sha256.Sum256(b)
	return hex.EncodeToString(h[:6])
}

func jsonUnmarshal(b []byte, v interface{}) error { return json.Unmarshal(b, v) }

func priceMap(p *commission.Price) (map[string]string, string) {
	m := map[string]string{
		"PayloadByte": p.PayloadByte.String(), "Send": p.Send.String(), "BuyBancor": p.BuyBancor.String(), "SellBancor": p.SellBancor.String(),
		"SellAllBancor": p.SellAllBancor.String(), "BuyPoolBase": p.BuyPoolBase.String(), "BuyPoolDelta": p.BuyPoolDelta.String(),
		"SellPoolBase": p.SellPoolBase.String(), "SellPoolDelta": p.SellPoolDelta.String(), "SellAllPoolBase": p.SellAllPoolBase.String(),
		"SellAllPoolDelta": p.SellAllPoolDelta.String(), "CreateTicker3": p.CreateTicker3.String(), "CreateTicker4": p.CreateTicker4.String(),
		"CreateTicker5": p.CreateTicker5.String(), "CreateTicker6": p.CreateTicker6.String(), "CreateTicker7to10": p.CreateTicker7to10.String(),
		"CreateCoin": p.CreateCoin.String(), "CreateToken": p.CreateToken.String(), "RecreateCoin": p.RecreateCoin.String(),
		"RecreateToken": p.RecreateToken.String(), "DeclareCandidacy": p.DeclareCandidacy.String(), "Delegate": p.Delegate.String(),
		"Unbond": p.Unbond.String(), "RedeemCheck": p.RedeemCheck.String(), "SetCandidateOn": p.SetCandidateOn.String(),
		"SetCandidateOff": p.SetCandidateOff.String(), "CreateMultisig": p.CreateMultisig.String(), "MultisendBase": p.MultisendBase.String(),
		"MultisendDelta": p.MultisendDelta.String(), "EditCandidate": p.EditCandidate.String(), "SetHaltBlock": p.SetHaltBlock.String(),
		"EditTickerOwner": p.EditTickerOwner.String(), "EditMultisig": p.EditMultisig.String(), "EditCandidatePublicKey": p.EditCandidatePublicKey.String(),
		"CreateSwapPool": p.CreateSwapPool.String(), "AddLiquidity": p.AddLiquidity.String(), "RemoveLiquidity": p.RemoveLiquidity.String(),
		"EditCandidateCommission": p.EditCandidateCommission.String(), "MintToken": p.MintToken.String(), "BurnToken": p.BurnToken.String(),
		"VoteCommission": p.VoteCommission.String(), "VoteUpdate": p.VoteUpdate.String(), "FailedTx": p.FailedTx.String(),
		"AddLimitOrder": p.AddLimitOrder.String(), "RemoveLimitOrder": p.RemoveLimitOrder.String(), "MoveStake": p.MoveStake.String(),
		"LockStake": p.LockStake.String(), "Lock": p.Lock.String(),
	}
	return m, cstr(uint64(p.Coin))
}

// Universe is what the memory projection enumerates through getters: it only grows.
type Universe struct {
	Addrs   map[types.Address]bool
	Coins   map[uint64]bool
	Heights map[uint64]bool // frozen-fund heights
	VoteH   map[uint64]bool
	Checks  map[string]*issuedCheck
}

func NewUniverse() *Universe {
	return &Universe{Addrs: map[types.Address]bool{}, Coins: map[uint64]bool{0: true}, Heights: map[uint64]bool{}, VoteH: map[uint64]bool{}, Checks: map[string]*issuedCheck{}}
}

// AbsorbExport adds everything a complete export mentions.
func (u *Universe) AbsorbExport(st *types.AppState) {
	for _, a := range st.Accounts {
		u.Addrs[a.Address] = true
	}
	for _, c := range st.Coins {
		u.Coins[c.ID] = true
		if c.OwnerAddress != nil {
			u.Addrs[*c.OwnerAddress] = true
		}
	}
	for _, c := range st.Candidates {
		u.Addrs[c.OwnerAddress], u.Addrs[c.RewardAddress], u.Addrs[c.ControlAddress] = true, true, true
		for _, s := range c.Stakes {
			u.Addrs[s.Owner] = true
		}
		for _, s := range c.Updates {
			u.Addrs[s.Owner] = true
		}
	}
	for _, w := range st.Waitlist {
		u.Addrs[w.Owner] = true
	}
	for _, f := range st.FrozenFunds {
		u.Addrs[f.Address] = true
		u.Heights[f.Height] = true
	}
	for _, p := range st.Pools {
		for _, o := range p.Orders {
			u.Addrs[o.Owner] = true
		}
	}
	for _, h := range st.HaltBlocks {
		u.VoteH[h.Height] = true
	}
	for _, v := range st.CommissionVotes {
		u.VoteH[v.Height] = true
	}
	for _, v := range st.UpdateVotes {
		u.VoteH[v.Height] = true
	}
}

// ProjectDisk converts a complete export (plus app-db records) to the abstract state.
func ProjectDisk(nd *Node, st *types.AppState, u *Universe) *Abs {
	n := nd.N
	a := newAbs()
	a.MaxGas = st.MaxGas
	a.Slashed = st.TotalSlashed
	for _, acc := range st.Accounts {
		name := n.AddrName(acc.Address)
		if acc.Nonce != 0 {
			a.Nonce[name] = acc.Nonce
		}
		if acc.LockStakeUntilBlock != 0 {
			a.LockUntil[name] = acc.LockStakeUntilBlock
		}
		for _, b := range acc.Balance {
			if a.Bal[name] == nil {
				a.Bal[name] = map[string]string{}
			}
			a.Bal[name][cstr(b.Coin)] = b.Value
		}
		if acc.MultisigData != nil {
			m := AbsMsig{Threshold: acc.MultisigData.Threshold, Owners: map[string]uint64{}, Seq: []string{}}
			for i, o := range acc.MultisigData.Addresses {
				on := n.AddrName(o)
				m.Seq = append(m.Seq, on)
				if i < len(acc.MultisigData.Weights) {
					m.Owners[on] = acc.MultisigData.Weights[i]
				}
			}
			a.Msig[name] = m
		}
	}
	maxCoin := uint64(0)
	for _, c := range st.Coins {
		ac := AbsCoin{Sym: c.Symbol.String(), Ver: c.Version, Vol: c.Volume, Res: "0", Crr: c.Crr, Max: c.MaxSupply, Mint: c.Mintable, Burn: c.Burnable}
		switch {
		case c.Crr != 0:
			ac.Kind = "bancor"
			ac.Res = c.Reserve
		case len(ac.Sym) > 3 && ac.Sym[:3] == "LP-":
			ac.Kind = "lp"
		default:
			ac.Kind = "token"
		}
		if c.OwnerAddress != nil {
			ac.Owner = n.AddrName(*c.OwnerAddress)
		}
		a.Coins[cstr(c.ID)] = ac
		if c.ID > maxCoin && c.ID != types.USDTID {
			maxCoin = c.ID
		}
	}
	a.NextCoin = maxCoin + 1
	pubByID := map[uint64]string{}
	for _, c := range st.Candidates {
		pubByID[c.ID] = n.PubName(c.PubKey)
	}
	for _, d := range st.DeletedCandidates {
		pubByID[d.ID] = n.PubName(d.PubKey)
		a.Deleted = append(a.Deleted, fmt.Sprintf("%d:%s", d.ID, n.PubName(d.PubKey)))
	}
	for _, b := range st.BlockListCandidates {
		a.Blocked = append(a.Blocked, n.PubName(b))
	}
	for _, c := range st.Candidates {
		ac := AbsCand{ID: c.ID, Owner: n.AddrName(c.OwnerAddress), Control: n.AddrName(c.ControlAddress), Reward: n.AddrName(c.RewardAddress),
			Status: c.Status, JailedUntil: c.JailedUntil, Comm: c.Commission, LastEdit: c.LastEditCommissionHeight, Total: c.TotalBipStake,
			Stakes: []AbsStake{}, Upd: []AbsStake{}}
		for _, s := range c.Stakes {
			ac.Stakes = append(ac.Stakes, AbsStake{O: n.AddrName(s.Owner), C: cstr(s.Coin), V: s.Value, BV: s.BipValue})
		}
		for _, s := range c.Updates {
			ac.Upd = append(ac.Upd, AbsStake{O: n.AddrName(s.Owner), C: cstr(s.Coin), V: s.Value, BV: s.BipValue})
		}
		a.Cands[n.PubName(c.PubKey)] = ac
	}
	for _, w := range st.Waitlist {
		a.Wait = append(a.Wait, AbsWait{O: n.AddrName(w.Owner), ID: w.CandidateID, C: cstr(w.Coin), V: w.Value})
	}
	for _, f := range st.FrozenFunds {
		af := AbsFrozen{Due: f.Height, O: n.AddrName(f.Address), ID: f.CandidateID, C: cstr(f.Coin), V: f.Value, To: f.MoveToCandidateID}
		if f.CandidateKey != nil {
			af.Key = n.PubName(*f.CandidateKey)
		}
		a.Frozen = append(a.Frozen, af)
	}
	lpBySym := map[string]string{}
	for id, c := range a.Coins {
		if c.Kind == "lp" {
			lpBySym[c.Sym] = id
		}
	}
	for _, p := range st.Pools {
		pid := cstr(p.ID)
		a.Pools[pid] = AbsPool{C0: cstr(p.Coin0), C1: cstr(p.Coin1), R0: p.Reserve0, R1: p.Reserve1, LP: lpBySym[fmt.Sprintf("LP-%d", p.ID)]}
		for _, o := range p.Orders {
			ao := AbsOrder{Pool: pid, Owner: n.AddrName(o.Owner), H: o.Height}
			if o.IsSale { // sells coin1 (Volume1), buys coin0 (Volume0)
				ao.SellCoin, ao.BuyCoin, ao.Sell, ao.Buy = cstr(p.Coin1), cstr(p.Coin0), o.Volume1, o.Volume0
			} else {
				ao.SellCoin, ao.BuyCoin, ao.Sell, ao.Buy = cstr(p.Coin0), cstr(p.Coin1), o.Volume0, o.Volume1
			}
			a.Orders[cstr(o.ID)] = ao
		}
	}
	a.NextOrder = st.NextOrderID
	used := map[string]bool{}
	for _, h := range st.UsedChecks {
		used[string(h)] = true
	}
	for id, ic := range u.Checks {
		if used[hex.EncodeToString(ic.Hash[:])] {
			a.ChecksUsed = append(a.ChecksUsed, id)
			delete(used, hex.EncodeToString(ic.Hash[:]))
		}
	}
	for h := range used {
		a.ChecksUsed = append(a.ChecksUsed, "h:"+h[:12])
	}
	hv := map[uint64]*AbsVote{}
	for _, h := range st.HaltBlocks {
		if hv[h.Height] == nil {
			hv[h.Height] = &AbsVote{H: h.Height, Votes: []string{}, What: "halt"}
		}
		hv[h.Height].Votes = append(hv[h.Height].Votes, n.PubName(h.CandidateKey))
	}
	for _, v := range hv {
		a.HaltVotes = append(a.HaltVotes, *v)
	}
	for _, v := range st.CommissionVotes {
		av := AbsVote{H: v.Height, Votes: []string{}, What: v.Commission.Send + "/" + cstr(v.Commission.Coin)}
		for _, p := range v.Votes {
			av.Votes = append(av.Votes, n.PubName(p))
		}
		a.CommVotes = append(a.CommVotes, av)
	}
	for _, v := range st.UpdateVotes {
		av := AbsVote{H: v.Height, Votes: []string{}, What: v.Version}
		for _, p := range v.Votes {
			av.Votes = append(av.Votes, n.PubName(p))
		}
		a.UpdVotes = append(a.UpdVotes, av)
	}
	c := st.Commission
	a.PriceCoin = cstr(c.Coin)
	a.Price = map[string]string{
		"PayloadByte": c.PayloadByte, "Send": c.Send, "BuyBancor": c.BuyBancor, "SellBancor": c.SellBancor, "SellAllBancor": c.SellAllBancor,
		"BuyPoolBase": c.BuyPoolBase, "BuyPoolDelta": c.BuyPoolDelta, "SellPoolBase": c.SellPoolBase, "SellPoolDelta": c.SellPoolDelta,
		"SellAllPoolBase": c.SellAllPoolBase, "SellAllPoolDelta": c.SellAllPoolDelta, "CreateTicker3": c.CreateTicker3, "CreateTicker4": c.CreateTicker4,
		"CreateTicker5": c.CreateTicker5, "CreateTicker6": c.CreateTicker6, "CreateTicker7to10": c.CreateTicker7_10, "CreateCoin": c.CreateCoin,
		"CreateToken": c.CreateToken, "RecreateCoin": c.RecreateCoin, "RecreateToken": c.RecreateToken, "DeclareCandidacy": c.DeclareCandidacy,
		"Delegate": c.Delegate, "Unbond": c.Unbond, "RedeemCheck": c.RedeemCheck, "SetCandidateOn": c.SetCandidateOn, "SetCandidateOff": c.SetCandidateOff,
		"CreateMultisig": c.CreateMultisig, "MultisendBase": c.MultisendBase, "MultisendDelta": c.MultisendDelta, "EditCandidate": c.EditCandidate,
		"SetHaltBlock": c.SetHaltBlock, "EditTickerOwner": c.EditTickerOwner, "EditMultisig": c.EditMultisig, "EditCandidatePublicKey": c.EditCandidatePublicKey,
		"CreateSwapPool": c.CreateSwapPool, "AddLiquidity": c.AddLiquidity, "RemoveLiquidity": c.RemoveLiquidity, "EditCandidateCommission": c.EditCandidateCommission,
		"MintToken": c.MintToken, "BurnToken": c.BurnToken, "VoteCommission": c.VoteCommission, "VoteUpdate": c.VoteUpdate, "FailedTx": c.FailedTx,
		"AddLimitOrder": c.AddLimitOrder, "RemoveLimitOrder": c.RemoveLimitOrder, "MoveStake": c.MoveStake, "LockStake": c.LockStake, "Lock": c.Lock,
	}
	for _, v := range st.Validators {
		av := AbsVal{P: n.PubName(v.PubKey), Stake: v.TotalBipStake, Accum: v.AccumReward, Bits: []int{}}
		if v.AbsentTimes != nil {
			av.Bits = bitsOf(v.AbsentTimes)
			for i := 0; i < int(v.AbsentTimes.Size()); i++ {
				if v.AbsentTimes.GetIndex(i) {
					av.Absent++
				}
			}
		}
		a.Vals = append(a.Vals, av)
	}
	a.sortAll()
	return a
}

// appRecords reads the app-db records back from the database (not from AppDB's caches).
type AppRecords struct {
	Height   uint64       `json:"height"`
	Hash     string       `json:"hash"`
	Emission string       `json:"emission"`
	Price    AbsPriceRec  `json:"price"`
	Versions []AbsVersion `json:"versions"`
	Vals     string       `json:"vals"`
	Times    string       `json:"times"`
	Start    uint64       `json:"start"`
}

func ReadAppRecords(d *Disk) AppRecords {
	get := func(k string) []byte {
		v, err := d.App.DB.Get([]byte(k))
		if err != nil {
			panic(err)
		}
		return v
	}
	r := AppRecords{Emission: "0", Versions: []AbsVersion{}, Price: AbsPriceRec{T: "0", R0: "0", R1: "0", Last: "0"}}
	if v := get("height"); len(v) == 8 {
		r.Height = beU64(v)
	}
	if v := get("startHeight"); len(v) == 8 {
		r.Start = beU64(v)
	}
	r.Hash = hex.EncodeToString(get("hash"))
	if v := get("emission"); len(v) > 0 {
		r.Emission = new(big.Int).SetBytes(v).String()
	}
	if v := get("price"); len(v) > 0 {
		var tp struct {
			T      uint64
			R0, R1 *big.Int
			Off    bool
			Last   *big.Int
		}
		if err := rlp.DecodeBytes(v, &tp); err == nil {
			r.Price = AbsPriceRec{T: cstr(tp.T), R0: tp.R0.String(), R1: tp.R1.String(), Last: tp.Last.String(), Off: tp.Off}
		}
	}
	r.Vals = shortHash(get("validators"))
	r.Times = string(get("blockDelta"))
	r.Versions = parseVersions(get("versions"))
	return r
}

func beU64(b []byte) uint64 {
	var x uint64
	for _, c := range b {
		x = x<<8 | uint64(c)
	}
	return x
}

func parseVersions(b []byte) []AbsVersion {
	out := []AbsVersion{}
	if len(b) == 0 {
		return out
	}
	var vs []struct {
		Name   string
		Height string
	}
	// tmjson encodes uint64 as strings
	if err := jsonUnmarshal(b, &vs); err != nil {
		return out
	}
	for _, v := range vs {
		h, _ := strconv.ParseUint(v.Height, 10, 64)
		out = append(out, AbsVersion{Name: v.Name, H: h})
	}
	return out
}

// ProjectMem reads the deliver state through the CheckState getters over the universe.
func ProjectMem(nd *Node, u *Universe, height uint64) *Abs {
	n := nd.N
	cs := nd.App.CurrentState()
	a := newAbs()
	a.H = height
	if cs == nil {
		return a
	}
	ds := nd.App.VerifDeliverState()
	for _, ad := range n.AllAddrs() {
		u.Addrs[ad] = true
	}
	for _, ad := range ds.Accounts.VerifLoaded() {
		u.Addrs[ad] = true
	}
	for _, ad := range ds.Waitlist.VerifLoaded() {
		u.Addrs[ad] = true
	}
	for _, h := range ds.FrozenFunds.VerifLoadedHeights() {
		u.Heights[h] = true
	}
	app := cs.App()
	a.MaxGas = app.GetMaxGas()
	a.Slashed = app.GetTotalSlashed().String()
	r, sr := app.Reward()
	a.Reward, a.SafeReward = r.String(), sr.String()
	next := uint64(app.GetNextCoinID())
	a.NextCoin = next
	for c := uint64(1); c < next; c++ {
		u.Coins[c] = true
	}
	coinIDs := make([]uint64, 0, len(u.Coins))
	for c := range u.Coins {
		coinIDs = append(coinIDs, c)
	}
	sort.Slice(coinIDs, func(i, j int) bool { return coinIDs[i] < coinIDs[j] })
	existing := []uint64{0}
	for _, c := range coinIDs {
		if c == 0 {
			continue
		}
		m := cs.Coins().GetCoin(types.CoinID(c))
		if m == nil {
			continue
		}
		existing = append(existing, c)
		ac := AbsCoin{Sym: m.Symbol().String(), Ver: uint64(m.Version()), Vol: m.Volume().String(), Res: "0", Crr: uint64(m.Crr()), Max: m.MaxSupply().String(), Mint: m.IsMintable(), Burn: m.IsBurnable()}
		switch {
		case m.Crr() != 0:
			ac.Kind = "bancor"
			ac.Res = m.Reserve().String()
		case len(ac.Sym) > 3 && ac.Sym[:3] == "LP-":
			ac.Kind = "lp"
		default:
			ac.Kind = "token"
		}
		if si := cs.Coins().GetSymbolInfo(m.Symbol()); si != nil && si.OwnerAddress() != nil && m.Version() == 0 {
			ac.Owner = n.AddrName(*si.OwnerAddress())
			u.Addrs[*si.OwnerAddress()] = true
		}
		a.Coins[cstr(c)] = ac
	}
	// blocked public keys: asked key by key for every key name the harness has ever used (the node exposes no list)
	for _, name := range n.PubNames() {
		if cs.Candidates().IsBlockedPubKey(n.Pub(name)) {
			a.Blocked = append(a.Blocked, name)
		}
	}
	// candidates first (they may add addresses)
	cands := cs.Candidates().GetCandidates()
	for _, c := range cands {
		u.Addrs[c.OwnerAddress], u.Addrs[c.RewardAddress], u.Addrs[c.ControlAddress] = true, true, true
		ac := AbsCand{ID: uint64(c.ID), Owner: n.AddrName(c.OwnerAddress), Control: n.AddrName(c.ControlAddress), Reward: n.AddrName(c.RewardAddress),
			Status: uint64(c.Status), JailedUntil: c.JailedUntil, Comm: uint64(c.Commission), LastEdit: c.LastEditCommissionHeight,
			Total: c.GetTotalBipStake().String(), Stakes: []AbsStake{}, Upd: []AbsStake{}}
		for _, s := range ds.Candidates.VerifStakes(c.PubKey) {
			u.Addrs[s.Owner] = true
			ac.Stakes = append(ac.Stakes, AbsStake{O: n.AddrName(s.Owner), C: cstr(uint64(s.Coin)), V: s.Value.String(), BV: s.BipValue.String()})
		}
		for _, s := range ds.Candidates.VerifUpdates(c.PubKey) {
			u.Addrs[s.Owner] = true
			ac.Upd = append(ac.Upd, AbsStake{O: n.AddrName(s.Owner), C: cstr(uint64(s.Coin)), V: s.Value.String(), BV: s.BipValue.String()})
		}
		a.Cands[n.PubName(c.PubKey)] = ac
	}
	addrs := make([]types.Address, 0, len(u.Addrs))
	for ad := range u.Addrs {
		addrs = append(addrs, ad)
	}
	sort.Slice(addrs, func(i, j int) bool { return string(addrs[i][:]) < string(addrs[j][:]) })
	for _, ad := range addrs {
		name := n.AddrName(ad)
		acc := cs.Accounts().GetAccount(ad)
		if acc.Nonce != 0 {
			a.Nonce[name] = acc.Nonce
		}
		if l := cs.Accounts().GetLockStakeUntilBlock(ad); l != 0 {
			a.LockUntil[name] = l
		}
		for _, c := range existing {
			b := cs.Accounts().GetBalance(ad, types.CoinID(c))
			if b.Sign() != 0 {
				if a.Bal[name] == nil {
					a.Bal[name] = map[string]string{}
				}
				a.Bal[name][cstr(c)] = b.String()
			}
		}
		if acc.IsMultisig() {
			md := acc.Multisig()
			m := AbsMsig{Threshold: uint64(md.Threshold), Owners: map[string]uint64{}, Seq: []string{}}
			for i, o := range md.Addresses {
				on := n.AddrName(o)
				m.Seq = append(m.Seq, on)
				if i < len(md.Weights) {
					m.Owners[on] = uint64(md.Weights[i])
				}
			}
			a.Msig[name] = m
		}
		if wl := cs.WaitList().GetByAddress(ad); wl != nil {
			for _, it := range wl.List {
				if it.Value.Sign() != 0 {
					a.Wait = append(a.Wait, AbsWait{O: name, ID: uint64(it.CandidateId), C: cstr(uint64(it.Coin)), V: it.Value.String()})
				}
			}
		}
	}
	for h := range u.Heights {
		if h < height {
			continue
		}
		ff := cs.FrozenFunds().GetFrozenFunds(h)
		if ff == nil || ds.FrozenFunds.VerifDeleted(h) {
			continue
		}
		for _, it := range ff.List {
			af := AbsFrozen{Due: h, O: n.AddrName(it.Address), ID: uint64(it.CandidateID), C: cstr(uint64(it.Coin)), V: it.Value.String(), To: uint64(it.GetMoveToCandidateID())}
			if it.CandidateKey != nil {
				af.Key = n.PubName(*it.CandidateKey)
			}
			a.Frozen = append(a.Frozen, af)
		}
	}
	// pools and orders
	lpBySym := map[string]string{}
	for id, c := range a.Coins {
		if c.Kind == "lp" {
			lpBySym[c.Sym] = id
		}
	}
	for _, p := range cs.Swap().SwapPools(context.Background()) {
		if p == nil || !p.Exists() {
			continue
		}
		r0, r1 := p.Reserves()
		pid := cstr(uint64(p.GetID()))
		a.Pools[pid] = AbsPool{C0: cstr(uint64(p.Coin0())), C1: cstr(uint64(p.Coin1())), R0: r0.String(), R1: r1.String(), LP: lpBySym[fmt.Sprintf("LP-%d", p.GetID())]}
	}
	if ds.SwapV2 != nil {
		ords, nextOrd := ds.SwapV2.VerifOrders()
		a.NextOrder = uint64(nextOrd)
		for _, o := range ords {
			u.Addrs[o.Owner] = true
			a.Orders[cstr(uint64(o.ID))] = AbsOrder{Pool: cstr(uint64(o.PoolID)), SellCoin: cstr(uint64(o.SellCoin)), BuyCoin: cstr(uint64(o.BuyCoin)),
				Sell: o.Sell.String(), Buy: o.Buy.String(), Owner: n.AddrName(o.Owner), H: o.Height}
		}
	}
	for id, ic := range u.Checks {
		c, err := check.DecodeFromBytes(ic.Raw)
		if err == nil && cs.Checks().IsCheckUsed(c) {
			a.ChecksUsed = append(a.ChecksUsed, id)
		}
	}
	for h := range u.VoteH {
		if m := cs.Halts().GetHaltBlocks(h); m != nil && len(m.List) > 0 {
			av := AbsVote{H: h, Votes: []string{}, What: "halt"}
			for _, it := range m.List {
				av.Votes = append(av.Votes, n.PubName(it.Pubkey))
			}
			a.HaltVotes = append(a.HaltVotes, av)
		}
		for _, m := range cs.Commission().GetVotes(h) {
			pr := commission.Decode(m.Price)
			av := AbsVote{H: h, Votes: []string{}, What: pr.Send.String() + "/" + cstr(uint64(pr.Coin))}
			for _, p := range m.Votes {
				av.Votes = append(av.Votes, n.PubName(p))
			}
			a.CommVotes = append(a.CommVotes, av)
		}
		for _, m := range cs.Updates().GetVotes(h) {
			av := AbsVote{H: h, Votes: []string{}, What: m.Version}
			for _, p := range m.Votes {
				av.Votes = append(av.Votes, n.PubName(p))
			}
			a.UpdVotes = append(a.UpdVotes, av)
		}
	}
	a.Price, a.PriceCoin = priceMap(cs.Commission().GetCommissions())
	for _, v := range cs.Validators().GetValidators() {
		av := AbsVal{P: n.PubName(v.PubKey), Stake: v.GetTotalBipStake().String(), Accum: v.GetAccumReward().String(), Absent: uint64(v.CountAbsentTimes()), ToDrop: v.IsToDrop(), Bits: []int{}}
		if v.AbsentTimes != nil {
			av.Bits = bitsOf(v.AbsentTimes)
		}
		a.Vals = append(a.Vals, av)
	}
	a.RewardPool = nd.App.GetCurrentRewards().String()
	adb := nd.App.VerifAppDB()
	if e := adb.Emission(); e != nil {
		a.Emission = e.String()
	}
	t, r0, r1, last, off := adb.GetPrice()
	if r0 != nil {
		a.PriceRec = AbsPriceRec{T: cstr(uint64(t.UnixNano())), R0: r0.String(), R1: r1.String(), Last: last.String(), Off: off}
	}
	for _, v := range adb.GetVersions() {
		a.Versions = append(a.Versions, AbsVersion{Name: v.Name, H: v.Height})
	}
	a.sortAll()
	return a
}
