package hz

import "github.com/MinterTeam/minter-go-node/coreV2/types"

// bitsOf renders the absence window as a sequence of 0/1 (index i = block height i mod 24).
func bitsOf(b *types.BitArray) []int {
	out := []int{}
	if b == nil {
		return out
	}
	for i := 0; i < int(b.Size()); i++ {
		if b.GetIndex(i) {
			out = append(out, 1)
		} else {
			out = append(out, 0)
		}
	}
	return out
}
