package hz

import (
	"fmt"
	"os"
	"runtime/debug"
	"strings"
	"time"

	"github.com/MinterTeam/minter-go-node/cmd/utils"
	"github.com/MinterTeam/minter-go-node/config"
	"github.com/MinterTeam/minter-go-node/coreV2/appdb"
	"github.com/MinterTeam/minter-go-node/coreV2/minter"
	"github.com/MinterTeam/minter-go-node/coreV2/types"
	"github.com/tendermint/go-amino"
	abci "github.com/tendermint/tendermint/abci/types"
	tmlog "github.com/tendermint/tendermint/libs/log"
	tmproto "github.com/tendermint/tendermint/proto/tendermint/types"
	db "github.com/tendermint/tm-db"
)

// Disk is the persistent side of a node: four databases that survive a restart.
type Disk struct {
	State, Events, Snap, App *CrashDB
	WC                       *WriteCounter
	Dir                      string // non-empty for goleveldb
	Backend                  string
}

// NewDisk creates the databases. backend: "mem" (MemDB kept open across restarts) or "leveldb" (dir).
func NewDisk(backend, dir string) *Disk {
	wc := &WriteCounter{}
	d := &Disk{WC: wc, Dir: dir, Backend: backend}
	d.open()
	return d
}

func (d *Disk) open() {
	mk := func(name string) *CrashDB {
		if d.Backend == "leveldb" {
			ldb, err := db.NewGoLevelDB(name, d.Dir)
			if err != nil {
				panic(err)
			}
			return NewCrashDB(name, ldb, d.WC, false)
		}
		return NewCrashDB(name, db.NewMemDB(), d.WC, true)
	}
	if d.Backend == "leveldb" || d.State == nil {
		d.State, d.Events, d.Snap, d.App = mk("state"), mk("events"), mk("snap"), mk("app")
	}
}

// Reopen prepares the disk for a new process image (closes and reopens leveldb handles).
func (d *Disk) Reopen() {
	d.WC.Revive()
	if d.Backend == "leveldb" {
		for _, c := range []*CrashDB{d.State, d.Events, d.Snap, d.App} {
			_ = c.RealClose()
		}
		d.open()
	}
}

func (d *Disk) Destroy() {
	if d.Backend == "leveldb" {
		for _, c := range []*CrashDB{d.State, d.Events, d.Snap, d.App} {
			_ = c.RealClose()
		}
		_ = os.RemoveAll(d.Dir)
	}
}

// Node is one minter application instance plus its disk.
type Node struct {
	ID      string
	W       *World
	N       *Names
	Disk    *Disk
	App     *minter.Blockchain
	Genesis types.AppState
	Home    string
	LastReq *abci.RequestBeginBlock
	Snap    int // snapshot interval (0 = no snapshot store attached)
}

// CallResult is the outcome of one guarded ABCI call.
type CallResult struct {
	Panic   string
	Crashed bool // CrashSignal (injected)
	Stack   string
}

func guard(f func()) (res CallResult) {
	defer func() {
		if r := recover(); r != nil {
			if cs, ok := r.(CrashSignal); ok {
				res.Crashed = true
				res.Panic = fmt.Sprintf("crash-injected after write %d", cs.Write)
				return
			}
			res.Panic = fmt.Sprint(r)
			st := string(debug.Stack())
			// keep the frames inside the repository only
			var keep []string
			for _, l := range strings.Split(st, "\n") {
				if strings.Contains(l, "minter-go-node") || strings.Contains(l, "/repo/") {
					keep = append(keep, strings.TrimSpace(l))
				}
				if len(keep) > 12 {
					break
				}
			}
			res.Stack = strings.Join(keep, " | ")
		}
	}()
	f()
	return
}

func (nd *Node) cfg() *config.Config {
	cfg := config.DefaultConfig()
	cfg.DBBackend = "memdb"
	cfg.KeepLastStates = nd.W.KeepStates
	cfg.SetRoot(nd.Home)
	return cfg
}

// boot constructs the Blockchain object over the node's disk (used for first start and restarts).
func (nd *Node) boot() {
	appdb.VerifWrapDB = func(d db.DB) db.DB {
		_ = d.Close()
		return nd.Disk.App
	}
	defer func() { appdb.VerifWrapDB = nil }()
	st := utils.VerifNewStorage(nd.Home, "", nd.Disk.State, nd.Disk.Events, nd.Disk.Snap)
	nd.App = minter.NewMinterBlockchain(st, nd.cfg(), nil, nd.W.StakePeriod, nd.W.ExpirePeriod, tmlog.NewNopLogger())
	if nd.Snap > 0 {
		nd.attachSnapshots()
	}
}

// NewNode builds genesis, boots a node and runs InitChain.
func NewNode(id string, w *World, n *Names, backend, dir string) (*Node, CallResult) {
	return NewNodeSnap(id, w, n, backend, dir, 0)
}

// NewNodeSnap is NewNode with a state-sync snapshot store attached (snap = interval in blocks, 0 = none).
func NewNodeSnap(id string, w *World, n *Names, backend, dir string, snap int) (*Node, CallResult) {
	w.defaults()
	types.CurrentChainID = types.ChainTestnet
	nd := &Node{ID: id, W: w, N: n, Home: dir, Snap: snap}
	nd.Disk = NewDisk(backend, dir)
	nd.Genesis = w.BuildGenesis(n)
	var res CallResult
	res = guard(func() {
		nd.boot()
		nd.initChain(nd.Genesis)
	})
	return nd, res
}

// NewNodeFromGenesis boots a node from an explicit genesis state (export/import round trips).
func NewNodeFromGenesis(id string, w *World, n *Names, gen types.AppState, initialHeight int64, backend, dir string) (*Node, CallResult) {
	types.CurrentChainID = types.ChainTestnet
	w2 := *w
	w2.InitialHeight = initialHeight
	nd := &Node{ID: id, W: &w2, N: n, Home: dir}
	nd.Disk = NewDisk(backend, dir)
	nd.Genesis = gen
	res := guard(func() {
		nd.boot()
		nd.initChain(gen)
	})
	return nd, res
}

func (nd *Node) initChain(gen types.AppState) {
	js, err := amino.MarshalJSON(gen)
	if err != nil {
		panic(err)
	}
	var vals []abci.ValidatorUpdate
	for _, v := range gen.Validators {
		vals = append(vals, abci.Ed25519ValidatorUpdate(v.PubKey.Bytes(), 1))
	}
	nd.App.InitChain(abci.RequestInitChain{
		Time: time.Unix(nd.W.StartTime, 0).UTC(), ChainId: "verif", Validators: vals,
		InitialHeight: nd.W.InitialHeight, AppStateBytes: js,
	})
}

// Restart drops the in-memory application and boots a new one from the disk.
func (nd *Node) Restart() CallResult {
	nd.waitSnapshots(true)
	nd.App = nil
	nd.Disk.Reopen()
	return guard(func() { nd.boot() })
}

// BlockTime is the default header time of block h.
func (nd *Node) BlockTime(h uint64) time.Time {
	return time.Unix(nd.W.StartTime+int64(h-uint64(nd.W.InitialHeight))*nd.W.BlockSeconds, 0).UTC()
}

// BeginReq builds a BeginBlock request: votes from the current validator set minus absentees, evidence by name.
func (nd *Node) BeginReq(h uint64, t time.Time, absent []string, evidence []string) abci.RequestBeginBlock {
	abs := map[types.TmAddress]bool{}
	for _, a := range absent {
		abs[nd.N.TmAddr(a)] = true
	}
	var votes []abci.VoteInfo
	if cs := nd.App.CurrentState(); cs != nil {
		for _, v := range cs.Validators().GetValidators() {
			addr := v.GetAddress()
			votes = append(votes, abci.VoteInfo{Validator: abci.Validator{Address: append([]byte{}, addr[:]...), Power: 1}, SignedLastBlock: !abs[addr]})
		}
	}
	var ev []abci.Evidence
	for _, e := range evidence {
		addr := nd.N.TmAddr(e)
		ev = append(ev, abci.Evidence{Type: abci.EvidenceType_DUPLICATE_VOTE, Validator: abci.Validator{Address: append([]byte{}, addr[:]...), Power: 1}, Height: int64(h) - 1})
	}
	return abci.RequestBeginBlock{Header: tmproto.Header{Height: int64(h), Time: t}, LastCommitInfo: abci.LastCommitInfo{Votes: votes}, ByzantineValidators: ev}
}

func (nd *Node) Begin(req abci.RequestBeginBlock) CallResult {
	nd.LastReq = &req
	return guard(func() { nd.App.BeginBlock(req) })
}

func (nd *Node) Deliver(raw []byte) (abci.ResponseDeliverTx, CallResult) {
	var r abci.ResponseDeliverTx
	res := guard(func() { r = nd.App.DeliverTx(abci.RequestDeliverTx{Tx: raw}) })
	return r, res
}

func (nd *Node) Check(raw []byte) (abci.ResponseCheckTx, CallResult) {
	var r abci.ResponseCheckTx
	res := guard(func() { r = nd.App.VerifCheckTx(raw) })
	return r, res
}

func (nd *Node) End(h uint64) (abci.ResponseEndBlock, CallResult) {
	var r abci.ResponseEndBlock
	res := guard(func() { r = nd.App.EndBlock(abci.RequestEndBlock{Height: int64(h)}) })
	return r, res
}

func (nd *Node) Commit() (abci.ResponseCommit, CallResult) {
	var r abci.ResponseCommit
	res := guard(func() { r = nd.App.Commit() })
	nd.waitSnapshots(false)
	return r, res
}

// waitSnapshots lets the background snapshot of the block just committed finish: the harness produces blocks within
// milliseconds, a real chain within seconds (the node starts one goroutine per snapshot height and they may overtake each other).
// With force the scheduler gate of a deliberately delayed snapshot is opened first; without it a closed gate means
// "do not wait": the delayed snapshot is meant to overlap the next block.
func (nd *Node) waitSnapshots(force bool) {
	if nd.Snap > 0 && nd.App != nil {
		if force {
			nd.Disk.WC.ReleaseGate()
		} else if nd.Disk.WC.GateArmed() {
			return
		}
		_ = guard(func() { nd.App.VerifWaitSnapshots() })
	}
}

func (nd *Node) Info() (abci.ResponseInfo, CallResult) {
	var r abci.ResponseInfo
	res := guard(func() { r = nd.App.Info(abci.RequestInfo{}) })
	return r, res
}

func (nd *Node) Close() {
	nd.waitSnapshots(true)
	if nd.Disk != nil {
		nd.Disk.Destroy()
	}
	if nd.Snap > 0 && nd.Home != "" {
		_ = os.RemoveAll(nd.Home)
	}
}
