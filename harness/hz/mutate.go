package hz

import (
	"math/big"
	"math/rand"

	"github.com/MinterTeam/minter-go-node/coreV2/transaction"
	"github.com/MinterTeam/minter-go-node/rlp"
	"github.com/btcsuite/btcd/btcec"
)

// MutationClasses lists the malformation classes the specification enumerates (Mutate(tx, class)).
var MutationClasses = []string{
	"flip-data", "flip-nonce", "flip-sig", "high-s", "bad-v", "zero-r", "trunc-1", "trunc-half", "trunc-head", "append-byte",
	"garbage", "empty", "nil-data", "unknown-type", "wrong-arity", "big-payload", "big-service", "huge-gasprice", "zero-gasprice",
	"noncanon-int", "long-len-prefix", "unknown-sigtype", "nested-garbage",
}

func reencode(tx *transaction.Transaction) []byte {
	raw, err := rlp.EncodeToBytes(tx)
	if err != nil {
		panic(err)
	}
	return raw
}

// applyMutation rewrites bt.Raw according to class; Intact=false whenever signed content changed.
func applyMutation(bt *BuiltTx, tx *transaction.Transaction, class string, b *txBuilder) {
	rnd := rand.New(rand.NewSource(int64(len(bt.Raw))*7919 + int64(len(class))))
	switch class {
	case "flip-data":
		if len(tx.Data) > 0 {
			d := append([]byte{}, tx.Data...)
			d[len(d)-1] ^= 0x01
			tx.Data = d
		}
		bt.Raw = reencode(tx)
		bt.Intact = false
	case "flip-nonce":
		tx.Nonce ^= 1
		if tx.Nonce == 0 {
			tx.Nonce = 2
		}
		bt.Raw = reencode(tx)
		bt.Intact = false
	case "flip-sig":
		s := append([]byte{}, tx.SignatureData...)
		s[len(s)-1] ^= 0x01
		tx.SignatureData = s
		bt.Raw = reencode(tx)
		bt.Intact = false
	case "high-s", "bad-v", "zero-r":
		var sig transaction.Signature
		if err := rlp.DecodeBytes(tx.SignatureData, &sig); err != nil {
			return
		}
		switch class {
		case "high-s":
			sig.S = new(big.Int).Sub(btcec.S256().N, sig.S)
			if sig.V.Int64() == 27 {
				sig.V = big.NewInt(28)
			} else {
				sig.V = big.NewInt(27)
			}
			// same signer, same signed content: a malleated but "authentic" signature
		case "bad-v":
			sig.V = big.NewInt(29 + int64(rnd.Intn(200)))
			bt.Intact = false
		case "zero-r":
			sig.R = big.NewInt(0)
			bt.Intact = false
		}
		tx.SignatureData, _ = rlp.EncodeToBytes(sig)
		bt.Raw = reencode(tx)
		bt.Abs["malleated"] = class
	case "trunc-1":
		bt.Raw = bt.Raw[:len(bt.Raw)-1]
		bt.Intact = false
	case "trunc-half":
		bt.Raw = bt.Raw[:len(bt.Raw)/2]
		bt.Intact = false
	case "trunc-head":
		bt.Raw = bt.Raw[:3]
		bt.Intact = false
	case "append-byte":
		bt.Raw = append(append([]byte{}, bt.Raw...), 0x00)
		bt.Intact = false
	case "garbage":
		g := make([]byte, 1+rnd.Intn(300))
		rnd.Read(g)
		bt.Raw = g
		bt.Intact = false
	case "empty":
		bt.Raw = []byte{}
		bt.Intact = false
	case "nil-data":
		tx.Data = nil
		bt.Raw = reencode(tx)
		bt.Intact = false
	case "unknown-type":
		tx.Type = transaction.TxType(0x7f)
		bt.Raw = reencode(tx)
		bt.Intact = false
	case "wrong-arity":
		// data list with one element dropped / one extra
		d, _ := rlp.EncodeToBytes([]interface{}{uint64(1)})
		tx.Data = d
		bt.Raw = reencode(tx)
		bt.Intact = false
	case "big-payload":
		tx.Payload = make([]byte, 10001)
		bt.Raw = reencode(tx)
		bt.Intact = false
	case "big-service":
		tx.ServiceData = make([]byte, 129)
		bt.Raw = reencode(tx)
		bt.Intact = false
	case "huge-gasprice":
		tx.GasPrice = 0xffffffff
		bt.Raw = reencode(tx)
		bt.Intact = false
	case "zero-gasprice":
		tx.GasPrice = 0
		bt.Raw = reencode(tx)
		bt.Intact = false
	case "noncanon-int":
		// re-encode the outer list with the nonce carrying a leading zero byte
		bt.Raw = nonCanonicalNonce(bt.Raw)
		bt.Abs["noncanon"] = true
	case "long-len-prefix":
		bt.Raw = longLenPrefix(bt.Raw)
		bt.Abs["noncanon"] = true
	case "unknown-sigtype":
		tx.SignatureType = transaction.SigType(3)
		bt.Raw = reencode(tx)
		bt.Intact = false
	case "nested-garbage":
		d, _ := rlp.EncodeToBytes([]interface{}{[]interface{}{[]interface{}{[]byte{1, 2, 3}}, uint64(7)}, []byte("zz")})
		tx.Data = d
		bt.Raw = reencode(tx)
		bt.Intact = false
	default:
		panic("unknown mutation class " + class)
	}
}

// rlpSplitList returns the payload of the outer list and the header length.
func rlpSplitList(raw []byte) (hdr int, payload []byte, ok bool) {
	if len(raw) == 0 {
		return 0, nil, false
	}
	b := raw[0]
	switch {
	case b >= 0xc0 && b <= 0xf7:
		return 1, raw[1:], int(b-0xc0) == len(raw)-1
	case b > 0xf7:
		n := int(b - 0xf7)
		if len(raw) < 1+n {
			return 0, nil, false
		}
		l := 0
		for _, x := range raw[1 : 1+n] {
			l = l<<8 | int(x)
		}
		return 1 + n, raw[1+n:], l == len(raw)-1-n
	}
	return 0, nil, false
}

func rlpListHeader(n int) []byte {
	if n <= 55 {
		return []byte{0xc0 + byte(n)}
	}
	var lb []byte
	for x := n; x > 0; x >>= 8 {
		lb = append([]byte{byte(x)}, lb...)
	}
	return append([]byte{0xf7 + byte(len(lb))}, lb...)
}

// nonCanonicalNonce rewrites the first item (nonce) of the tx list as a 2-byte string with a leading zero.
func nonCanonicalNonce(raw []byte) []byte {
	_, payload, ok := rlpSplitList(raw)
	if !ok || len(payload) == 0 {
		return raw
	}
	first := payload[0]
	var val byte
	var rest []byte
	switch {
	case first < 0x80:
		val, rest = first, payload[1:]
	case first == 0x81 && len(payload) > 1:
		val, rest = payload[1], payload[2:]
	default:
		return raw
	}
	np := append([]byte{0x82, 0x00, val}, rest...)
	return append(rlpListHeader(len(np)), np...)
}

// longLenPrefix rewrites a short outer list header (<=55) in the long form, or pads a long form with a zero byte.
func longLenPrefix(raw []byte) []byte {
	hdr, payload, ok := rlpSplitList(raw)
	if !ok {
		return raw
	}
	n := len(payload)
	if hdr == 1 {
		return append([]byte{0xf8, byte(n)}, payload...)
	}
	var lb []byte
	for x := n; x > 0; x >>= 8 {
		lb = append([]byte{byte(x)}, lb...)
	}
	lb = append([]byte{0x00}, lb...)
	return append(append([]byte{0xf7 + byte(len(lb))}, lb...), payload...)
}
