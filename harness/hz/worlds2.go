package hz

import "fmt"

// extraWorlds holds the standard worlds defined outside world.go.
var extraWorlds = map[string]func() *World{}

func init() {
	extraWorlds["W5"] = worldMarkets
	extraWorlds["W0"] = worldStartHeightOne
	extraWorlds["W4"] = worldCrowd
	extraWorlds["WP"] = worldTinyPools
}

// worldMarkets: bancor coins of three reserve ratios, tokens, pools (one of them with an order book), a coin that
// can pay fees through both its reserve and a pool.
func worldMarkets() *World {
	w := &World{Name: "W5", StakePeriod: 12, ExpirePeriod: 6, InitialHeight: 301}
	for i := 1; i <= 5; i++ {
		w.Accounts = append(w.Accounts, GenAccount{Name: fmt.Sprintf("a%d", i), Bal: map[string]string{
			"BIP": "1000000u", "CRRTEN": "20000u", "CRRFIF": "50000u", "CRRHUN": "30000u", "TOKA": "400000u", "TOKB": "400000u", "CHEAP": "20000u"}})
	}
	w.Accounts = append(w.Accounts, GenAccount{Name: "o1", Bal: map[string]string{"BIP": "10000u"}})
	w.Candidates = []GenCandidate{{Name: "v1", Owner: "o1", Reward: "o1", Control: "o1", Commission: 10, Validator: true,
		Stakes: []GenStake{{Owner: "o1", Coin: "BIP", Value: "5000u"}, {Owner: "a5", Coin: "CRRFIF", Value: "1000u"}}}}
	w.Coins = []GenCoin{
		{Symbol: "CRRTEN", Crr: 10, Reserve: "200000u", Max: "10000000u", Owner: "a1"},
		{Symbol: "CRRFIF", Crr: 50, Reserve: "500000u", Max: "10000000u", Owner: "a2"},
		{Symbol: "CRRHUN", Crr: 100, Reserve: "150000u", Max: "10000000u", Owner: "a3"},
		{Symbol: "TOKA", Crr: 0, Max: "100000000u", Owner: "a1", Mintable: true, Burnable: true},
		{Symbol: "TOKB", Crr: 0, Max: "100000000u", Owner: "a2", Mintable: false, Burnable: true},
		// a coin worth a tenth of the base coin, 100 units below its maximum supply (supply-limit checks must count coins, not base coin)
		{Symbol: "CHEAP", Crr: 100, Reserve: "10000u", Max: "100100u", Owner: "a4"},
	}
	w.Pools = []GenPool{
		{Coin0: "BIP", Coin1: "TOKA", Reserve0: "100000u", Reserve1: "200000u", Holders: map[string]string{"a1": "100000u"},
			Orders: []GenOrder{
				{Owner: "a2", SellCoin: "TOKA", WantBuy: "100u", WantSell: "190u", Height: 300},
				{Owner: "a3", SellCoin: "TOKA", WantBuy: "100u", WantSell: "180u", Height: 300},
				{Owner: "a3", SellCoin: "BIP", WantBuy: "220u", WantSell: "100u", Height: 300},
				{Owner: "a4", SellCoin: "BIP", WantBuy: "230u", WantSell: "100u", Height: 300},
			}},
		{Coin0: "TOKA", Coin1: "TOKB", Reserve0: "50000u", Reserve1: "50000u", Holders: map[string]string{"a2": "40000u"}},
		{Coin0: "BIP", Coin1: "CRRFIF", Reserve0: "20000u", Reserve1: "10000u", Holders: map[string]string{"a3": "10000u"}},
		{Coin0: "BIP", Coin1: "TOKB", Reserve0: "30000u", Reserve1: "30000u", Holders: map[string]string{"a4": "20000u"}},
	}
	withUSDT(w)
	return w
}

// worldStartHeightOne: the default Tendermint initial height (1), i.e. start height 0.
func worldStartHeightOne() *World {
	w := StandardWorld("W1")
	w.Name = "W0"
	w.InitialHeight = 1
	return w
}

// GenWait is a genesis waitlist entry.
type GenWait struct {
	Owner string `json:"o"`
	Cand  string `json:"cand"`
	Coin  string `json:"c"`
	Value string `json:"v"`
}

// worldCrowd: candidate v1 has all 1000 delegation slots taken (999 stakes of 3000 BIP, the smallest of 2000 BIP held by
// d1000), v2 is a small second validator; CRRHUN is a reserve-ratio-100 coin worth 2 BIP per unit, so that a stake's size in
// coin units and its value in base coin differ. Stake period 3.
func worldCrowd() *World {
	w := &World{Name: "W4", StakePeriod: 3, ExpirePeriod: 5, InitialHeight: 10197400}
	for i := 1; i <= 4; i++ {
		w.Accounts = append(w.Accounts, GenAccount{Name: fmt.Sprintf("a%d", i), Bal: map[string]string{"BIP": "1000000u", "CRRHUN": "20000u"}})
	}
	w.Accounts = append(w.Accounts, GenAccount{Name: "o1", Bal: map[string]string{"BIP": "10000u"}}, GenAccount{Name: "o2", Bal: map[string]string{"BIP": "10000u"}})
	var st []GenStake
	for i := 1; i <= 999; i++ {
		st = append(st, GenStake{Owner: fmt.Sprintf("d%d", i), Coin: "BIP", Value: "3000u"})
	}
	st = append(st, GenStake{Owner: "d1000", Coin: "BIP", Value: "2000u"})
	w.Candidates = []GenCandidate{
		{Name: "v1", Owner: "o1", Reward: "o1", Control: "o1", Commission: 10, Validator: true, Stakes: st},
		{Name: "v2", Owner: "o2", Reward: "o2", Control: "o2", Commission: 10, Validator: true, Stakes: []GenStake{{Owner: "o2", Coin: "BIP", Value: "5000u"}}},
	}
	w.Coins = []GenCoin{{Symbol: "CRRHUN", Crr: 100, Reserve: "160000u", Max: "10000000u", Owner: "a1"}}
	withUSDT(w)
	return w
}

// worldTinyPools: two tokens P0 < P1 held by a1 and a2 and no pool between them: the behaviours of the pool model (MCPools.tla,
// amounts of a few hundred pip around the 1000-pip minimum liquidity) are replayed here, where every rounding step shows.
func worldTinyPools() *World {
	w := &World{Name: "WP", StakePeriod: 12, ExpirePeriod: 6, InitialHeight: 401}
	for i := 1; i <= 2; i++ {
		w.Accounts = append(w.Accounts, GenAccount{Name: fmt.Sprintf("a%d", i), Bal: map[string]string{"BIP": "1000000u", "PZERO": "1000u", "PONE": "1000u"}})
	}
	w.Accounts = append(w.Accounts, GenAccount{Name: "o1", Bal: map[string]string{"BIP": "10000u"}})
	w.Candidates = []GenCandidate{{Name: "v1", Owner: "o1", Reward: "o1", Control: "o1", Commission: 10, Validator: true,
		Stakes: []GenStake{{Owner: "o1", Coin: "BIP", Value: "5000u"}}}}
	w.Coins = []GenCoin{
		{Symbol: "PZERO", Crr: 0, Max: "100000000u", Owner: "a1", Mintable: true, Burnable: true},
		{Symbol: "PONE", Crr: 0, Max: "100000000u", Owner: "a2", Mintable: true, Burnable: true},
	}
	withUSDT(w)
	return w
}
