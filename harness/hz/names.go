// Package hz is the conformance harness: it drives the real minter Blockchain through ABCI
// from abstract scenarios and records ndjson traces with the projected abstract state.
package hz

import (
	"crypto/ecdsa"
	"crypto/sha256"
	"encoding/hex"
	"fmt"
	"math/big"
	"sort"
	"strings"
	"sync"

	"github.com/MinterTeam/minter-go-node/coreV2/dao"
	"github.com/MinterTeam/minter-go-node/coreV2/developers"
	"github.com/MinterTeam/minter-go-node/coreV2/types"
	"github.com/MinterTeam/minter-go-node/crypto"
	"github.com/tendermint/tendermint/crypto/ed25519"
)

// Names maps abstract names (a1, v1, zero, dao, dev, ms:<id>) to addresses / keys and back.
type Names struct {
	mu     sync.Mutex
	keys   map[string]*ecdsa.PrivateKey
	addr   map[string]types.Address
	rev    map[types.Address]string
	pub    map[string]types.Pubkey
	revPub map[types.Pubkey]string
	revTm  map[types.TmAddress]string
}

func NewNames() *Names {
	n := &Names{
		keys: map[string]*ecdsa.PrivateKey{}, addr: map[string]types.Address{}, rev: map[types.Address]string{},
		pub: map[string]types.Pubkey{}, revPub: map[types.Pubkey]string{}, revTm: map[types.TmAddress]string{},
	}
	n.RegisterAddr("zero", types.Address{})
	n.RegisterAddr("dao", dao.Address)
	n.RegisterAddr("dev", developers.Address)
	return n
}

func keyFromName(name string) *ecdsa.PrivateKey {
	h := sha256.Sum256([]byte("verif/acct/" + name))
	k, err := crypto.ToECDSA(h[:])
	if err != nil {
		h = sha256.Sum256(h[:])
		k, err = crypto.ToECDSA(h[:])
		if err != nil {
			panic(err)
		}
	}
	return k
}

// Key returns (creating on first use) the private key of account name.
func (n *Names) Key(name string) *ecdsa.PrivateKey {
	n.mu.Lock()
	defer n.mu.Unlock()
	if k, ok := n.keys[name]; ok {
		return k
	}
	k := keyFromName(name)
	n.keys[name] = k
	a := crypto.PubkeyToAddress(k.PublicKey)
	n.addr[name] = a
	n.rev[a] = name
	return k
}

// Addr returns the address of an abstract account name.
func (n *Names) Addr(name string) types.Address {
	n.mu.Lock()
	if a, ok := n.addr[name]; ok {
		n.mu.Unlock()
		return a
	}
	n.mu.Unlock()
	if strings.HasPrefix(name, "x") && len(name) == 41 {
		b, err := hex.DecodeString(name[1:])
		if err == nil {
			var a types.Address
			copy(a[:], b)
			return a
		}
	}
	n.Key(name)
	return n.addr[name]
}

func (n *Names) RegisterAddr(name string, a types.Address) {
	n.mu.Lock()
	defer n.mu.Unlock()
	n.addr[name] = a
	n.rev[a] = name
}

// AddrName gives the abstract name of an address (x<hex> for unknown ones).
func (n *Names) AddrName(a types.Address) string {
	n.mu.Lock()
	defer n.mu.Unlock()
	if s, ok := n.rev[a]; ok {
		return s
	}
	return "x" + hex.EncodeToString(a[:])
}

func (n *Names) Known(a types.Address) bool {
	n.mu.Lock()
	defer n.mu.Unlock()
	_, ok := n.rev[a]
	return ok
}

// Pub returns the candidate public key for abstract name (v1, v2, ...).
func (n *Names) Pub(name string) types.Pubkey {
	n.mu.Lock()
	defer n.mu.Unlock()
	if p, ok := n.pub[name]; ok {
		return p
	}
	var p types.Pubkey
	if strings.HasPrefix(name, "p") && len(name) == 65 {
		b, err := hex.DecodeString(name[1:])
		if err == nil {
			copy(p[:], b)
			return p
		}
	}
	h := sha256.Sum256([]byte("verif/val/" + name))
	copy(p[:], h[:])
	n.pub[name] = p
	n.revPub[p] = name
	var tm types.TmAddress
	copy(tm[:], ed25519.PubKey(p[:]).Address().Bytes())
	n.revTm[tm] = name
	return p
}

// PubNames lists every candidate key name used so far (sorted).
func (n *Names) PubNames() []string {
	n.mu.Lock()
	defer n.mu.Unlock()
	out := make([]string, 0, len(n.pub))
	for k := range n.pub {
		out = append(out, k)
	}
	sort.Strings(out)
	return out
}

func (n *Names) PubName(p types.Pubkey) string {
	n.mu.Lock()
	defer n.mu.Unlock()
	if s, ok := n.revPub[p]; ok {
		return s
	}
	return "p" + hex.EncodeToString(p[:])
}

func (n *Names) TmAddr(name string) types.TmAddress {
	p := n.Pub(name)
	var tm types.TmAddress
	copy(tm[:], ed25519.PubKey(p[:]).Address().Bytes())
	return tm
}

func (n *Names) AllAddrs() []types.Address {
	n.mu.Lock()
	defer n.mu.Unlock()
	res := make([]types.Address, 0, len(n.rev))
	for a := range n.rev {
		res = append(res, a)
	}
	sort.Slice(res, func(i, j int) bool { return string(res[i][:]) < string(res[j][:]) })
	return res
}

// Amount parsing: "123" (pip), "3u" (3 units), "3u+5", "3u-1", "0.5u" is not supported.
func ParseAmount(s string, unit *big.Int) *big.Int {
	s = strings.TrimSpace(s)
	if s == "" {
		return big.NewInt(0)
	}
	total := big.NewInt(0)
	sign := 1
	cur := ""
	flush := func() {
		if cur == "" {
			return
		}
		v := new(big.Int)
		if strings.HasSuffix(cur, "u") {
			base, ok := new(big.Int).SetString(cur[:len(cur)-1], 10)
			if !ok {
				panic(fmt.Sprintf("bad amount %q", s))
			}
			v.Mul(base, unit)
		} else if strings.HasSuffix(cur, "m") { // milli-units
			base, ok := new(big.Int).SetString(cur[:len(cur)-1], 10)
			if !ok {
				panic(fmt.Sprintf("bad amount %q", s))
			}
			v.Mul(base, unit)
			v.Div(v, big.NewInt(1000))
		} else {
			_, ok := v.SetString(cur, 10)
			if !ok {
				panic(fmt.Sprintf("bad amount %q", s))
			}
		}
		if sign < 0 {
			total.Sub(total, v)
		} else {
			total.Add(total, v)
		}
		cur = ""
	}
	for i, ch := range s {
		if (ch == '+' || ch == '-') && i > 0 {
			flush()
			if ch == '-' {
				sign = -1
			} else {
				sign = 1
			}
			continue
		}
		cur += string(ch)
	}
	flush()
	return total
}
