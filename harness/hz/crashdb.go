package hz

import (
	"fmt"
	"strings"
	"sync"

	db "github.com/tendermint/tm-db"
)

// CrashSignal is the panic value used to simulate the process dying after a database write.
type CrashSignal struct{ Write int }

// WriteCounter is shared by the three wrapped databases of one node so that writes are
// numbered in program order across them.
type WriteCounter struct {
	mu         sync.Mutex
	armed      bool
	n          int
	crashAt    int // crash right after the crashAt-th write completes (1-based); 0 = never
	afterLabel string
	afterN     int // die after the afterN-th write whose label has the prefix (0 or 1 = the first)
	seenLabel  int
	log        []string
	dead       bool
	// scheduler gate for the background snapshot goroutine (C29): reads of the snapshot metadata database block while the
	// gate is closed; it opens when the state tree of the NEXT block has been saved (first state batch after an app batch)
	gate    chan struct{}
	gateApp bool
}

// ArmGate closes the gate (call right before the Commit whose snapshot is to start late).
func (w *WriteCounter) ArmGate() {
	w.mu.Lock()
	defer w.mu.Unlock()
	if w.gate == nil {
		w.gate = make(chan struct{})
		w.gateApp = false
	}
}

// ReleaseGate opens the gate unconditionally.
func (w *WriteCounter) ReleaseGate() {
	w.mu.Lock()
	defer w.mu.Unlock()
	if w.gate != nil {
		close(w.gate)
		w.gate = nil
	}
}

func (w *WriteCounter) GateArmed() bool {
	w.mu.Lock()
	defer w.mu.Unlock()
	return w.gate != nil
}

func (w *WriteCounter) gateWait() {
	w.mu.Lock()
	g := w.gate
	w.mu.Unlock()
	if g != nil {
		<-g
	}
}

func (w *WriteCounter) gateSee(label string) {
	if w.gate == nil {
		return
	}
	if strings.HasPrefix(label, "app:batch") {
		w.gateApp = true
	} else if w.gateApp && strings.HasPrefix(label, "state:batch") {
		close(w.gate)
		w.gate = nil
	}
}

func (w *WriteCounter) Arm(crashAt int) {
	w.mu.Lock()
	defer w.mu.Unlock()
	w.armed, w.n, w.crashAt, w.afterLabel, w.log = true, 0, crashAt, "", nil
}

// ArmLabel arms the counter to die after the k-th write (k > 0) or after the first write whose label starts with prefix.
func (w *WriteCounter) ArmLabel(k int, prefix string, nth int) {
	w.mu.Lock()
	defer w.mu.Unlock()
	w.armed, w.n, w.crashAt, w.afterLabel, w.afterN, w.seenLabel, w.log = true, 0, k, prefix, nth, 0, nil
}

func (w *WriteCounter) Disarm() (int, []string) {
	w.mu.Lock()
	defer w.mu.Unlock()
	w.armed = false
	return w.n, w.log
}

// before is called before a write is applied: a dead process writes nothing.
func (w *WriteCounter) before() {
	w.mu.Lock()
	defer w.mu.Unlock()
	if w.dead {
		panic(CrashSignal{Write: w.n})
	}
}

// after is called after a write was applied.
func (w *WriteCounter) after(label string) {
	w.mu.Lock()
	w.gateSee(label)
	if !w.armed {
		w.mu.Unlock()
		return
	}
	w.n++
	w.log = append(w.log, label)
	hit := false
	if w.afterLabel != "" && len(label) >= len(w.afterLabel) && label[:len(w.afterLabel)] == w.afterLabel {
		w.seenLabel++
		hit = w.seenLabel >= w.afterN
	}
	if (w.crashAt != 0 && w.n == w.crashAt) || hit {
		w.dead = true
		n := w.n
		w.mu.Unlock()
		panic(CrashSignal{Write: n})
	}
	w.mu.Unlock()
}

func (w *WriteCounter) Revive() {
	w.mu.Lock()
	defer w.mu.Unlock()
	w.dead, w.armed, w.crashAt, w.afterLabel = false, false, 0, ""
}

// CrashDB wraps a database, numbering every write (an atomic batch counts as one write).
// Close is a no-op when keepOpen is set so that an in-memory database can play the disk across restarts.
type CrashDB struct {
	db.DB
	name     string
	wc       *WriteCounter
	keepOpen bool
}

func NewCrashDB(name string, inner db.DB, wc *WriteCounter, keepOpen bool) *CrashDB {
	return &CrashDB{DB: inner, name: name, wc: wc, keepOpen: keepOpen}
}

func keyLabel(k []byte) string {
	printable := true
	for _, c := range k {
		if c < 32 || c > 126 {
			printable = false
			break
		}
	}
	if printable && len(k) < 24 {
		return string(k)
	}
	if len(k) > 6 {
		k = k[:6]
	}
	return fmt.Sprintf("%x", k)
}

func (c *CrashDB) Set(k, v []byte) error {
	c.wc.before()
	err := c.DB.Set(k, v)
	c.wc.after(c.name + ":set:" + keyLabel(k))
	return err
}
func (c *CrashDB) SetSync(k, v []byte) error {
	c.wc.before()
	err := c.DB.SetSync(k, v)
	c.wc.after(c.name + ":set:" + keyLabel(k))
	return err
}
func (c *CrashDB) Delete(k []byte) error {
	c.wc.before()
	err := c.DB.Delete(k)
	c.wc.after(c.name + ":del:" + keyLabel(k))
	return err
}
func (c *CrashDB) DeleteSync(k []byte) error {
	c.wc.before()
	err := c.DB.DeleteSync(k)
	c.wc.after(c.name + ":del:" + keyLabel(k))
	return err
}

// reads of the snapshot metadata database pass the scheduler gate
func (c *CrashDB) Get(k []byte) ([]byte, error) {
	if c.name == "snap" {
		c.wc.gateWait()
	}
	return c.DB.Get(k)
}
func (c *CrashDB) ReverseIterator(start, end []byte) (db.Iterator, error) {
	if c.name == "snap" {
		c.wc.gateWait()
	}
	return c.DB.ReverseIterator(start, end)
}
func (c *CrashDB) Iterator(start, end []byte) (db.Iterator, error) {
	if c.name == "snap" {
		c.wc.gateWait()
	}
	return c.DB.Iterator(start, end)
}
func (c *CrashDB) Close() error {
	if c.keepOpen {
		return nil
	}
	return c.DB.Close()
}
func (c *CrashDB) RealClose() error { return c.DB.Close() }

func (c *CrashDB) NewBatch() db.Batch {
	return &crashBatch{Batch: c.DB.NewBatch(), c: c}
}

type crashBatch struct {
	db.Batch
	c *CrashDB
	n int
}

func (b *crashBatch) Set(k, v []byte) error { b.n++; return b.Batch.Set(k, v) }
func (b *crashBatch) Delete(k []byte) error { b.n++; return b.Batch.Delete(k) }
func (b *crashBatch) Write() error {
	b.c.wc.before()
	err := b.Batch.Write()
	b.c.wc.after(fmt.Sprintf("%s:batch:%d", b.c.name, b.n))
	return err
}
func (b *crashBatch) WriteSync() error {
	b.c.wc.before()
	err := b.Batch.WriteSync()
	b.c.wc.after(fmt.Sprintf("%s:batch:%d", b.c.name, b.n))
	return err
}
