package hz

import (
	"math/big"

	"github.com/btcsuite/btcd/btcec"
)

// Byte-level rewrites of a validly signed transaction into encodings that say the same thing in a non-canonical way (C23).
// The transaction is parsed into an RLP item tree; one item is then re-emitted in a non-canonical form.

type rItem struct {
	list bool
	str  []byte
	kids []*rItem
	form string // "" canonical | "long" long-form prefix for a short payload | "lenzero" long form with a zero-padded length | "single" one byte < 0x80 as 0x81 b
	tail []byte // extra bytes emitted after the item
}

func parseRLP(b []byte) (*rItem, []byte, bool) {
	if len(b) == 0 {
		return nil, nil, false
	}
	h := b[0]
	readLen := func(n int) (int, bool) {
		if len(b) < 1+n {
			return 0, false
		}
		l := 0
		for _, x := range b[1 : 1+n] {
			l = l<<8 | int(x)
		}
		return l, true
	}
	switch {
	case h < 0x80:
		return &rItem{str: []byte{h}}, b[1:], true
	case h <= 0xb7:
		l := int(h - 0x80)
		if len(b) < 1+l {
			return nil, nil, false
		}
		return &rItem{str: append([]byte{}, b[1:1+l]...)}, b[1+l:], true
	case h <= 0xbf:
		n := int(h - 0xb7)
		l, ok := readLen(n)
		if !ok || len(b) < 1+n+l {
			return nil, nil, false
		}
		return &rItem{str: append([]byte{}, b[1+n:1+n+l]...)}, b[1+n+l:], true
	default:
		var body, rest []byte
		if h <= 0xf7 {
			l := int(h - 0xc0)
			if len(b) < 1+l {
				return nil, nil, false
			}
			body, rest = b[1:1+l], b[1+l:]
		} else {
			n := int(h - 0xf7)
			l, ok := readLen(n)
			if !ok || len(b) < 1+n+l {
				return nil, nil, false
			}
			body, rest = b[1+n:1+n+l], b[1+n+l:]
		}
		it := &rItem{list: true}
		for len(body) > 0 {
			k, r, ok := parseRLP(body)
			if !ok {
				return nil, nil, false
			}
			it.kids = append(it.kids, k)
			body = r
		}
		return it, rest, true
	}
}

func lenBytes(n int) []byte {
	var lb []byte
	for x := n; x > 0; x >>= 8 {
		lb = append([]byte{byte(x)}, lb...)
	}
	return lb
}

func (it *rItem) enc() []byte {
	var payload []byte
	base := byte(0x80)
	if it.list {
		base = 0xc0
		for _, k := range it.kids {
			payload = append(payload, k.enc()...)
		}
	} else {
		payload = it.str
	}
	var out []byte
	n := len(payload)
	switch {
	case !it.list && n == 1 && payload[0] < 0x80 && it.form == "":
		out = []byte{payload[0]}
	case it.form == "single":
		out = append([]byte{0x81}, payload...)
	case it.form == "long" || (n > 55 && it.form == ""):
		lb := lenBytes(n)
		if n == 0 {
			lb = []byte{0}
		}
		out = append(append([]byte{base + 55 + byte(len(lb))}, lb...), payload...)
	case it.form == "lenzero":
		lb := append([]byte{0}, lenBytes(n)...)
		out = append(append([]byte{base + 55 + byte(len(lb))}, lb...), payload...)
	default:
		out = append([]byte{base + byte(n)}, payload...)
	}
	return append(out, it.tail...)
}

// NonCanonClasses: rewrites that keep the meaning of the bytes. <field> is the index of the transaction field (0 = nonce ... 9 = signature data).
var NonCanonClasses = []string{
	"nc-leadzero:0", "nc-leadzero:1", "nc-leadzero:2", "nc-leadzero:3", "nc-leadzero:4", "nc-leadzero:8",
	"nc-single:0", "nc-single:1", "nc-single:2", "nc-single:3", "nc-single:4", "nc-single:8",
	"nc-long:0", "nc-long:5", "nc-long:6", "nc-long:7", "nc-long:9", "nc-long:outer", "nc-lenzero:outer", "nc-lenzero:5", "nc-lenzero:9",
	"nc-tail:outer", "nc-sig-leadzero:0", "nc-sig-leadzero:1", "nc-sig-leadzero:2", "nc-sig-long", "nc-sig-tail", "nc-sig-single:0",
}

// rewriteNonCanonical applies one class to raw; ok=false when the class does not apply to this transaction (bytes unchanged).
func rewriteNonCanonical(raw []byte, class string) ([]byte, bool) {
	root, rest, ok := parseRLP(raw)
	if !ok || len(rest) != 0 || !root.list || len(root.kids) != 10 {
		return raw, false
	}
	name, arg := class, ""
	for i := 0; i < len(class); i++ {
		if class[i] == ':' {
			name, arg = class[:i], class[i+1:]
		}
	}
	field := func() *rItem {
		if arg == "outer" {
			return root
		}
		k := int(arg[0] - '0')
		if k < 0 || k >= len(root.kids) {
			return nil
		}
		return root.kids[k]
	}
	sig := func() (*rItem, bool) {
		s, r, ok := parseRLP(root.kids[9].str)
		return s, ok && len(r) == 0 && s.list && len(s.kids) == 3
	}
	switch name {
	case "nc-leadzero":
		it := field()
		if it == nil || it.list {
			return raw, false
		}
		it.str = append([]byte{0}, it.str...)
	case "nc-single":
		it := field()
		if it == nil || it.list || len(it.str) != 1 || it.str[0] >= 0x80 {
			return raw, false
		}
		it.form = "single"
	case "nc-long":
		it := field()
		if it == nil {
			return raw, false
		}
		n := len(it.enc())
		if (it.list && n > 56) || (!it.list && len(it.str) > 55) || (!it.list && len(it.str) == 1 && it.str[0] < 0x80) {
			return raw, false
		}
		it.form = "long"
	case "nc-lenzero":
		it := field()
		if it == nil {
			return raw, false
		}
		it.form = "lenzero"
	case "nc-tail":
		root.tail = []byte{0x00}
	case "nc-sig-leadzero", "nc-sig-single":
		s, ok := sig()
		if !ok {
			return raw, false
		}
		k := int(arg[0] - '0')
		if name == "nc-sig-leadzero" {
			s.kids[k].str = append([]byte{0}, s.kids[k].str...)
		} else {
			if len(s.kids[k].str) != 1 || s.kids[k].str[0] >= 0x80 {
				return raw, false
			}
			s.kids[k].form = "single"
		}
		root.kids[9].str = s.enc()
	case "nc-sig-long":
		s, ok := sig()
		if !ok {
			return raw, false
		}
		s.form = "long"
		root.kids[9].str = s.enc()
	case "nc-sig-tail":
		s, ok := sig()
		if !ok {
			return raw, false
		}
		s.tail = []byte{0x00}
		root.kids[9].str = s.enc()
	default:
		return raw, false
	}
	return root.enc(), true
}

// rewriteData re-encodes the data field (before signing) in a non-canonical form: the signature then covers these very bytes.
func rewriteData(enc []byte, class string) ([]byte, bool) {
	it, rest, ok := parseRLP(enc)
	if !ok || len(rest) != 0 || !it.list {
		return enc, false
	}
	switch class {
	case "pre-data-long":
		if len(enc) > 56 {
			return enc, false
		}
		it.form = "long"
	case "pre-data-lenzero":
		it.form = "lenzero"
	case "pre-data-tail":
		it.tail = []byte{0x00}
	case "pre-data-leadzero":
		done := false
		for _, k := range it.kids {
			if !k.list && len(k.str) > 0 && len(k.str) <= 8 && k.str[0] != 0 {
				k.str = append([]byte{0}, k.str...)
				done = true
				break
			}
		}
		if !done {
			return enc, false
		}
	case "pre-data-single":
		done := false
		for _, k := range it.kids {
			if !k.list && len(k.str) == 1 && k.str[0] < 0x80 {
				k.form = "single"
				done = true
				break
			}
		}
		if !done {
			return enc, false
		}
	default:
		return enc, false
	}
	return it.enc(), true
}

// rewriteCheck re-encodes the raw check carried by a RedeemCheck transaction (data = [rawCheck, proof]) non-canonically, or
// replaces its signature by the other solution (N - S with the recovery id flipped). Done before the transaction is signed.
func rewriteCheck(enc []byte, class string) ([]byte, bool) {
	data, rest, ok := parseRLP(enc)
	if !ok || len(rest) != 0 || !data.list || len(data.kids) != 2 {
		return enc, false
	}
	chk, r2, ok := parseRLP(data.kids[0].str)
	if !ok || len(r2) != 0 || !chk.list || len(chk.kids) != 10 {
		return enc, false
	}
	switch class {
	case "pre-check-long":
		chk.form = "long"
		if len(data.kids[0].str) > 56 {
			chk.form = "lenzero"
		}
	case "pre-check-tail":
		chk.tail = []byte{0}
	case "pre-check-leadzero":
		done := false
		for _, k := range []int{1, 2, 3, 4, 5, 8, 9} {
			if len(chk.kids[k].str) > 0 {
				chk.kids[k].str = append([]byte{0}, chk.kids[k].str...)
				done = true
				break
			}
		}
		if !done {
			return enc, false
		}
	case "pre-check-single":
		done := false
		for _, k := range []int{1, 2, 3, 4, 5, 7} {
			if len(chk.kids[k].str) == 1 && chk.kids[k].str[0] < 0x80 {
				chk.kids[k].form = "single"
				done = true
				break
			}
		}
		if !done {
			return enc, false
		}
	case "pre-check-highs":
		sv := new(big.Int).SetBytes(chk.kids[9].str)
		chk.kids[9].str = new(big.Int).Sub(btcec.S256().N, sv).Bytes()
		v := new(big.Int).SetBytes(chk.kids[7].str).Int64()
		if v == 27 {
			chk.kids[7].str = []byte{28}
		} else {
			chk.kids[7].str = []byte{27}
		}
	default:
		return enc, false
	}
	data.kids[0].str = chk.enc()
	return data.enc(), true
}
