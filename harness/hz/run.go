package hz

import (
	"bufio"
	"crypto/sha256"
	"encoding/hex"
	"encoding/json"
	"fmt"
	"io"
	"os"
	"runtime"
	"sort"
	"strings"
	"sync/atomic"
	"time"

	"github.com/MinterTeam/minter-go-node/coreV2/events"

	abci "github.com/tendermint/tendermint/abci/types"
)

// Scenario is a list of abstract steps executed against one node (plus, with Twin, an ideal node in lockstep).
type Scenario struct {
	ID         string              `json:"id"`
	World      string              `json:"world,omitempty"`
	WorldDef   *World              `json:"worldDef,omitempty"`
	Steps      []Step              `json:"steps"`
	Backend    string              `json:"backend,omitempty"` // mem | leveldb
	NoProj     bool                `json:"noProj,omitempty"`  // no state projection, only responses, hashes and digests
	Family     string              `json:"family,omitempty"`
	Twin       bool                `json:"twin,omitempty"` // run an ideal node (never restarted, never crashed) in lockstep and log both
	Lean       bool                `json:"lean,omitempty"` // log digests instead of full states (long histories)
	Snap       int                 `json:"snap,omitempty"` // attach a state-sync snapshot store taking a snapshot every `snap` blocks
	DebugIdeal bool                `json:"debugIdeal,omitempty"`
	KeepStates int64               `json:"keepStates,omitempty"` // override of the world's number of kept state versions
	Readers    int                 `json:"readers,omitempty"`    // C25: number of goroutines serving queries against node A while it executes
	Schedule   map[string][]string `json:"schedule,omitempty"`   // C25: ABCI phase (begin|deliver|end|commit|between) -> query kinds that may overlap it
	RawBytes   bool                `json:"rawBytes,omitempty"`   // log the delivered bytes of every transaction (C23)
	Det        bool                `json:"det,omitempty"`        // log the observable outputs (obs) of every call without a twin: joined with a second process' run afterwards (C08)
}

// Step is one scenario step.
type Step struct {
	Op       string   `json:"op"` // block | skip | restart | export_import | snapshot | restore
	Txs      []TxSpec `json:"txs,omitempty"`
	Absent   []string `json:"absent,omitempty"`
	Evidence []string `json:"evidence,omitempty"`
	Dt       int64    `json:"dt,omitempty"`       // extra seconds added to the clock before this block
	Hour     int      `json:"hour,omitempty"`     // 1..24: move the clock forward to the next time with hour-1 (UTC)
	Edge     string   `json:"edge,omitempty"`     // with hour: "start" = the first second of that hour, "end" = its last second
	N        int      `json:"n,omitempty"`        // skip: number of empty blocks
	K        int      `json:"k,omitempty"`        // block: the process dies after the k-th database write of this block's commit
	After    string   `json:"after,omitempty"`    // block: the process dies after the first commit write whose label has this prefix
	AfterN   int      `json:"afterN,omitempty"`   // block: ... after the afterN-th such write
	LateSnap bool     `json:"lateSnap,omitempty"` // block: the background snapshot of this block starts only after the next block's state tree is saved
	Back     int      `json:"back,omitempty"`     // statesync: restore from the snapshot `back` blocks behind the tip (0 or 1) and replay the missing block
	Align    bool     `json:"align,omitempty"`    // export_import: first run empty blocks up to the next stake-recalculation height (no pending stake updates at the export)
	Quiet    bool     `json:"quiet,omitempty"`    // skip: only the last two blocks are logged step by step; the others end in one "Jump" record
}

// RecTx is the abstract description of a delivered transaction (ground truth included).
type RecTx struct {
	ID       string                 `json:"id"`
	Type     string                 `json:"type"`
	Sender   string                 `json:"sender"`
	From     string                 `json:"from"`
	SignedBy []string               `json:"signedBy"`
	Intact   bool                   `json:"intact"`
	Multi    bool                   `json:"multi"`
	Nonce    uint64                 `json:"nonce"`
	Chain    int                    `json:"chain"`
	GasCoin  string                 `json:"gasCoin"`
	GasPrice string                 `json:"gasPrice"`
	Bytes    int                    `json:"bytes"`
	Args     map[string]interface{} `json:"args"`
	Mut      string                 `json:"mut"`
	DupOf    string                 `json:"dupOf"`
	Hash     string                 `json:"hash"`
	Len      int                    `json:"len"`
	// codec scenarios (C23): the delivered bytes, the account the node recovers from them, the account of the key that signed
	RawB       []int  `json:"rawb,omitempty"`
	Recovered  string `json:"recovered,omitempty"`
	SignerAddr string `json:"signerAddr,omitempty"`
}

type RecResp struct {
	Code uint32            `json:"code"`
	Gas  int64             `json:"gas"`
	Tags map[string]string `json:"tags"`
	Log  string            `json:"log"`
}

type RecBegin struct {
	Time     int64    `json:"time"`
	Hour     int      `json:"hour"`
	Absent   []string `json:"absent"`
	Evidence []string `json:"evidence"`
	Present  []string `json:"present"`
}

type RecValUpd struct {
	P     string `json:"p"`
	Power int64  `json:"power"`
}

type RecEnd struct {
	Updates []RecValUpd `json:"updates"`
	MaxGas  int64       `json:"maxGas"`
}

// Obs is what an outside observer (consensus engine, API client) can see of a node after a call.
type Obs struct {
	Code     uint32            `json:"code"`
	Gas      int64             `json:"gas"`
	TagsD    string            `json:"tagsD"`
	Data     string            `json:"data"`
	Updates  string            `json:"updates"`
	Hash     string            `json:"hash"`     // app hash returned by Commit / Info
	Height   int64             `json:"height"`   // Info().LastBlockHeight
	StD      string            `json:"stD"`      // digest of the memory projection (queries on the current state)
	DiskD    string            `json:"diskD"`    // digest of the export of the committed state
	Emission string            `json:"emission"` // emission as the node reports it
	Versions string            `json:"versions"`
	Vals     string            `json:"vals"`
	Price    string            `json:"price"`
	Panic    string            `json:"panic"`
	Snap     string            `json:"snap,omitempty"` // state sync: height/format/chunks/hash/metadata of the snapshot at this height
	StF      map[string]string `json:"stF,omitempty"`  // export/import: digest per field of the normalised state (names what differs)
}

// Rec is one trace record (one ABCI call or harness step).
type Rec struct {
	Sc         string      `json:"sc"`
	I          int         `json:"i"`
	Node       string      `json:"node"`
	Kind       string      `json:"kind"`
	H          uint64      `json:"h"`
	Tx         *RecTx      `json:"tx,omitempty"`
	Check      int64       `json:"check"` // CheckTx code observed just before delivery, -1 if not called
	Resp       RecResp     `json:"resp"`
	Begin      *RecBegin   `json:"begin,omitempty"`
	End        *RecEnd     `json:"end,omitempty"`
	St         *Abs        `json:"st,omitempty"`
	Disk       *Abs        `json:"disk,omitempty"`
	App        *AppRecords `json:"app,omitempty"`
	Hash       string      `json:"hash"`
	Panic      string      `json:"panic"`
	Stack      string      `json:"stack,omitempty"`
	Writes     []string    `json:"writes,omitempty"`
	Unit       string      `json:"unit,omitempty"`
	Cfg        *RecCfg     `json:"cfg,omitempty"`
	Replay     bool        `json:"replay"`          // a step re-executed by the handshake emulation after a crash
	Obs        *Obs        `json:"obs,omitempty"`   // twin scenarios: what node A shows
	Ideal      *Obs        `json:"ideal,omitempty"` // twin scenarios: what the ideal node shows
	Fault      string      `json:"fault,omitempty"` // crash: label of the last write that reached the disk
	RT         *RoundTrip  `json:"rt,omitempty"`    // export/import: the exported state of the original chain (normalised digests)
	RT2        *RoundTrip  `json:"rt2,omitempty"`
	IdealSt    *Abs        `json:"idealSt,omitempty"`    // debugging aid: the reference twin's full projection (scenario flag debugIdeal)
	QueryPanic string      `json:"queryPanic,omitempty"` // C25: panics recovered in reader goroutines during this call   // export/import: the export of the new chain right after InitChain
}

// RecCfg carries the world constants the trace spec needs (first record of every scenario).
type RecCfg struct {
	World        string `json:"world"`
	StakePeriod  uint64 `json:"stakePeriod"`
	ExpirePeriod uint64 `json:"expirePeriod"`
	Initial      uint64 `json:"initial"`
	Unbond       uint64 `json:"unbond"`
	Move         uint64 `json:"move"`
	Jail         uint64 `json:"jail"`
	Chain        int    `json:"chain"`
	Family       string `json:"family"`
}

// Runner executes scenarios and writes trace records.
type Runner struct {
	Out       *bufio.Writer
	WorkDir   string
	seq       int
	Stats     map[string]int
	FlushEach bool // write every record through at once (scenarios that may kill the process)
}

func NewRunner(w io.Writer, workDir string) *Runner {
	return &Runner{Out: bufio.NewWriterSize(w, 1<<20), WorkDir: workDir, Stats: map[string]int{}}
}

func (r *Runner) emit(rec *Rec) {
	if rec.Resp.Tags == nil {
		rec.Resp.Tags = map[string]string{}
	}
	b, err := json.Marshal(rec)
	if err != nil {
		panic(err)
	}
	r.Out.Write(b)
	r.Out.WriteByte('\n')
	r.Stats["records"]++
	r.Stats["kind:"+rec.Kind]++
	if r.FlushEach {
		r.Out.Flush()
	}
}

func tagsOf(evs []abci.Event) map[string]string {
	m := map[string]string{}
	for _, e := range evs {
		for _, a := range e.Attributes {
			m[strings.ReplaceAll(string(a.Key), ".", "_")] = string(a.Value)
		}
	}
	return m
}

func digest(v interface{}) string {
	b, err := json.Marshal(v)
	if err != nil {
		return "err:" + err.Error()
	}
	h := sha256.Sum256(b)
	return hex.EncodeToString(h[:8])
}

// stateDigest is the digest of the current-state projection. Between blocks the reward pool variable still holds
// the fees of the block just committed (it is reset by the next BeginBlock and is not observable), so it is left out there.
func stateDigest(a *Abs, kind string) string {
	switch kind {
	case "Init", "Commit", "Restart", "Recover", "Recovered", "Restored", "EndBlock":
		cp := *a
		cp.RewardPool = "0"
		return digest(&cp)
	}
	return digest(a)
}

type builtBlock struct {
	req  abci.RequestBeginBlock
	raws [][]byte
	h    uint64
}

type runCtx struct {
	r        *Runner
	sc       *Scenario
	nd       *Node
	id       *Node // ideal twin (nil unless sc.Twin)
	u        *Universe
	iu       *Universe
	tb       *txBuilder
	i        int
	h        uint64 // height of the last committed block
	clock    int64
	dead     bool
	idead    bool
	last     *builtBlock       // the block committed last (replayed by a node restored from an older snapshot)
	hashAt   map[uint64]string // app hash returned by the commit of each height
	pool     *readerPool       // C25: concurrent readers (nil unless the scenario asks for them)
	progress uint64            // bumped at every ABCI call (watchdog)
	imported bool              // the node under observation was started from an export of the (now reference) node: compare in normalised form
	folded   bool              // ... and the export had pending stake updates, which the import folds into the stakes one period early
}

func (c *runCtx) rec(kind string, h uint64) *Rec {
	c.i++
	return &Rec{Sc: c.sc.ID, I: c.i, Node: c.nd.ID, Kind: kind, H: h, Check: -1}
}

// proj logs the memory projection of node A (full state, or only its digest in lean scenarios) and, with a twin, of the ideal node.
func (c *runCtx) proj(rec *Rec, h uint64) {
	if c.dead {
		return
	}
	if !c.sc.NoProj {
		var a *Abs
		res := guard(func() { a = ProjectMem(c.nd, c.u, h) })
		if res.Panic != "" {
			if rec.Panic == "" {
				rec.Panic = "projection: " + res.Panic
				rec.Stack = res.Stack
			}
		} else {
			if !c.sc.Lean || rec.Kind == "Init" {
				rec.St = a
			}
			if rec.Obs != nil {
				rec.Obs.StD = c.stD(a, rec.Kind)
				if c.imported {
					rec.Obs.StF = roundTripOf(a, c.folded).Fields
				}
				rec.Obs.Emission = a.Emission
				rec.Obs.Versions = digest(a.Versions)
				rec.Obs.Price = digest(a.PriceRec)
			}
		}
	}
	if c.id != nil && !c.idead && rec.Ideal != nil && !c.sc.NoProj {
		var a *Abs
		res := guard(func() { a = ProjectMem(c.id, c.iu, h) })
		if res.Panic == "" {
			rec.Ideal.StD = c.stD(a, rec.Kind)
			if c.sc.DebugIdeal {
				rec.IdealSt = a
			}
			if c.imported {
				rec.Ideal.StF = roundTripOf(a, c.folded).Fields
			}
			rec.Ideal.Emission = a.Emission
			rec.Ideal.Versions = digest(a.Versions)
			rec.Ideal.Price = digest(a.PriceRec)
		} else {
			rec.Ideal.Panic = "projection: " + res.Panic
		}
	}
}

func (c *runCtx) fail(rec *Rec, res CallResult) bool {
	if res.Panic == "" {
		return false
	}
	rec.Panic = res.Panic
	rec.Stack = res.Stack
	c.dead = true
	return true
}

// diskProjection exports the committed state with a fresh read-only state and reads the app records back.
func (c *runCtx) diskProjection(rec *Rec) {
	res := guard(func() {
		st := c.nd.App.VerifDeliverState().Export()
		c.u.AbsorbExport(&st)
		d := ProjectDisk(c.nd, &st, c.u)
		d.H = rec.H
		if !c.sc.NoProj && (!c.sc.Lean || rec.Kind == "Init") {
			rec.Disk = d
		}
		ar := ReadAppRecords(c.nd.Disk)
		rec.App = &ar
		if rec.Obs != nil {
			rec.Obs.DiskD = c.diskD(d) + c.eventsD(c.nd.Disk, rec.H)
			rec.Obs.Vals = ar.Vals
		}
	})
	if res.Panic != "" && rec.Panic == "" {
		rec.Panic = "export: " + res.Panic
		rec.Stack = res.Stack
	}
	if c.id != nil && !c.idead && rec.Ideal != nil {
		ires := guard(func() {
			st := c.id.App.VerifDeliverState().Export()
			c.iu.AbsorbExport(&st)
			d := ProjectDisk(c.id, &st, c.iu)
			d.H = rec.H
			rec.Ideal.DiskD = c.diskD(d) + c.eventsD(c.id.Disk, rec.H)
			rec.Ideal.Vals = ReadAppRecords(c.id.Disk).Vals
		})
		if ires.Panic != "" {
			rec.Ideal.Panic = "export: " + ires.Panic
		}
	}
}

// watchdog ends the process when block execution makes no progress for a while under concurrent queries: a deadlock between
// the writer and a reader is an observation (the wrapper records the death as a `Fatal` record of the running scenario).
func (c *runCtx) watchdog(stop chan struct{}) {
	last, idle := atomic.LoadUint64(&c.progress), 0
	for {
		select {
		case <-stop:
			return
		case <-time.After(time.Second):
		}
		cur := atomic.LoadUint64(&c.progress)
		if cur != last {
			last, idle = cur, 0
			continue
		}
		idle++
		if idle >= 25 {
			c.r.Out.Flush()
			buf := make([]byte, 1<<20)
			n := runtime.Stack(buf, true)
			fmt.Fprintf(os.Stderr, "fatal error: block execution made no progress for %d s while queries were served (deadlock)\n%s\n", idle, buf[:n])
			os.Exit(3)
		}
	}
}

// phase tells the readers which ABCI phase the writer is about to execute.
func (c *runCtx) phase(p string) {
	atomic.AddUint64(&c.progress, 1)
	if c.pool != nil {
		c.pool.setPhase(p)
		atomic.StoreUint64(&c.pool.lastH, c.h)
	}
}

// queryPanics moves what the readers recovered from into the record (first one as the record's panic if it has none).
func (c *runCtx) queryPanics(rec *Rec) {
	if c.pool == nil {
		return
	}
	if ps := c.pool.takePanics(); len(ps) > 0 {
		rec.QueryPanic = strings.Join(ps, " ;; ")
	}
}

func (c *runCtx) twinObs(rec *Rec) {
	if c.id != nil {
		rec.Obs = &Obs{}
		rec.Ideal = &Obs{}
	} else if c.sc.Det {
		rec.Obs = &Obs{}
	}
}

// after an export/import round trip the two chains are compared in the order-free, recalculation-insensitive form
func (c *runCtx) stD(a *Abs, kind string) string {
	if c.imported {
		return digest(normalise(a, c.folded))
	}
	return stateDigest(a, kind)
}

// eventsD: what the events query returns for height h, read back from the events database with a fresh store (the record a
// crashed, replayed or restarted node keeps for a block is part of what C09/C10 compare). Not compared after an export/import
// round trip: the imported chain starts a new events database.
func (c *runCtx) eventsD(d *Disk, h uint64) string {
	if c.imported || d == nil || d.Events == nil {
		return ""
	}
	b, err := json.Marshal(events.NewEventsStore(d.Events.DB).LoadEvents(uint32(h)))
	if err != nil {
		return "/events:" + err.Error()
	}
	sum := sha256.Sum256(b)
	return "/ev:" + hex.EncodeToString(sum[:6])
}

func (c *runCtx) diskD(a *Abs) string {
	if c.imported {
		return digest(normalise(a, c.folded))
	}
	return digest(a)
}

// RunScenario executes one scenario on a fresh node.
func (r *Runner) RunScenario(sc *Scenario) {
	w := sc.WorldDef
	if w == nil {
		w = StandardWorld(sc.World)
	}
	if sc.KeepStates > 0 {
		w2 := *w
		w2.KeepStates = sc.KeepStates
		w = &w2
	}
	n := NewNames()
	backend := sc.Backend
	if backend == "" {
		backend = "mem"
	}
	r.seq++
	dir := fmt.Sprintf("%s/n%d", r.WorkDir, r.seq)
	nd, res := NewNodeSnap("A", w, n, backend, dir, sc.Snap)
	c := &runCtx{r: r, sc: sc, nd: nd, u: NewUniverse(), hashAt: map[uint64]string{}}
	defer func() {
		c.nd.Close()
		if c.id != nil {
			c.id.Close()
		}
	}()
	if sc.Twin {
		r.seq++
		var ires CallResult
		c.id, ires = NewNodeSnap("I", w, n, "mem", fmt.Sprintf("%s/n%d", r.WorkDir, r.seq), sc.Snap)
		c.iu = NewUniverse()
		c.iu.Checks = c.u.Checks
		if ires.Panic != "" {
			c.idead = true
		}
	}
	c.h = uint64(w.InitialHeight) - 1
	c.clock = w.StartTime
	init := c.rec("Init", c.h)
	init.Unit = w.UnitInt().String()
	init.Cfg = &RecCfg{World: w.Name, StakePeriod: w.StakePeriod, ExpirePeriod: w.ExpirePeriod, Initial: uint64(w.InitialHeight),
		Unbond: 531, Move: 177, Jail: 354, Chain: 2, Family: sc.Family}
	if c.fail(init, res) {
		r.emit(init)
		return
	}
	c.twinObs(init)
	c.tb = &txBuilder{n: n, unit: w.UnitInt(), built: map[string]*BuiltTx{}, checks: c.u.Checks, height: func() uint64 { return c.h + 1 }}
	c.tb.check = func(raw []byte) uint32 {
		if c.nd == nil || c.dead {
			return 1
		}
		r, res := c.nd.Check(raw)
		if res.Panic != "" {
			return 1
		}
		return r.Code
	}
	c.diskProjection(init)
	c.proj(init, c.h)
	if info, ires := nd.Info(); ires.Panic == "" {
		init.Hash = hex.EncodeToString(info.LastBlockAppHash)
	}
	c.infoObs(init)
	r.emit(init)
	r.Stats["scenarios"]++
	if sc.Readers > 0 {
		r.FlushEach = true
		c.pool = newReaderPool(nd, sc.Readers, sc.Schedule, int64(len(sc.ID))*131+int64(r.seq))
		c.pool.lastH = c.h
		stopDog := make(chan struct{})
		go c.watchdog(stopDog)
		defer func() {
			close(stopDog)
			c.pool.close()
			rec := c.rec("Queries", c.h)
			c.queryPanics(rec)
			rec.Resp.Log = fmt.Sprint(c.pool.served)
			r.emit(rec)
			r.Out.Flush()
		}()
	}
	for si := range sc.Steps {
		if c.dead {
			break
		}
		st := &sc.Steps[si]
		switch st.Op {
		case "block", "":
			c.block(st)
		case "skip":
			k := st.N
			if k == 0 {
				k = 1
			}
			if st.Quiet && k > 4 {
				c.quietBlocks(k-2, st.Absent)
				k = 2
			}
			for j := 0; j < k && !c.dead; j++ {
				c.block(&Step{Op: "block", Absent: st.Absent})
			}
		case "restart":
			c.restart("Restart")
		case "statesync":
			c.stateSync(st.Back)
		case "export_import":
			for st.Align && !c.dead && c.h%c.nd.W.StakePeriod != 0 {
				c.block(&Step{Op: "block"})
			}
			if !c.dead {
				c.exportImport()
			}
		default:
			panic("unknown step op " + st.Op)
		}
	}
	if c.dead {
		r.Stats["cut"]++
	}
}

// quietBlocks executes n empty blocks without logging each call (fast-forward over the unbond / move / jail periods);
// a panic is still reported, and one "Jump" record with the full state re-bases the trace afterwards.
func (c *runCtx) quietBlocks(n int, absent []string) {
	nd := c.nd
	for j := 0; j < n && !c.dead; j++ {
		h := c.h + 1
		c.clock += nd.W.BlockSeconds
		t := time.Unix(c.clock, 0).UTC()
		var res CallResult
		step := "BeginBlock"
		var req abci.RequestBeginBlock
		res = guard(func() { req = nd.BeginReq(h, t, absent, nil) })
		if res.Panic == "" {
			// the node would stop the process at a halt block or an unknown version: same decision hook as in the logged path
			var halt, known bool
			res = guard(func() {
				halt = nd.App.VerifWouldHalt(h, req.LastCommitInfo.Votes)
				known = nd.App.VerifKnownVersion(h)
			})
			if res.Panic == "" && (halt || !known) {
				jump := c.rec("Jump", c.h)
				c.diskProjection(jump)
				c.proj(jump, c.h)
				c.r.emit(jump)
				rec := c.rec("Halt", h)
				rec.Begin = &RecBegin{Time: t.Unix(), Hour: t.Hour(), Absent: append([]string{}, absent...), Evidence: []string{}, Present: []string{}}
				abs := map[string]bool{}
				for _, a := range absent {
					abs[a] = true
				}
				if cs := nd.App.CurrentState(); cs != nil {
					for _, v := range cs.Validators().GetValidators() {
						if name := nd.N.PubName(v.PubKey); !abs[name] {
							rec.Begin.Present = append(rec.Begin.Present, name)
						}
					}
				}
				sort.Strings(rec.Begin.Present)
				if !known {
					rec.Resp.Log = "unknown version"
				}
				c.proj(rec, h)
				c.dead = true
				c.r.emit(rec)
				c.r.Stats["halted"]++
				return
			}
		}
		if res.Panic == "" {
			res = nd.Begin(req)
		}
		if res.Panic == "" {
			step = "EndBlock"
			_, res = nd.End(h)
		}
		if res.Panic == "" {
			step = "Commit"
			_, res = nd.Commit()
		}
		if c.id != nil && !c.idead { // the reference twin executes the same block
			ires := c.id.Begin(req)
			if ires.Panic == "" {
				_, ires = c.id.End(h)
			}
			if ires.Panic == "" {
				_, ires = c.id.Commit()
			}
			if ires.Panic != "" {
				c.idead = true
			}
		}
		if res.Panic != "" {
			rec := c.rec(step, h)
			c.fail(rec, res)
			c.r.emit(rec)
			return
		}
		c.h = h
		c.r.Stats["blocks"]++
	}
	rec := c.rec("Jump", c.h)
	c.twinObs(rec)
	c.infoObs(rec)
	c.diskProjection(rec)
	c.proj(rec, c.h)
	c.r.emit(rec)
}

func (c *runCtx) infoObs(rec *Rec) {
	if rec.Obs == nil {
		return
	}
	if info, ires := c.nd.Info(); ires.Panic == "" {
		rec.Obs.Hash, rec.Obs.Height = hex.EncodeToString(info.LastBlockAppHash), info.LastBlockHeight
	}
	if c.id != nil && !c.idead {
		if info, ires := c.id.Info(); ires.Panic == "" {
			rec.Ideal.Hash, rec.Ideal.Height = hex.EncodeToString(info.LastBlockAppHash), info.LastBlockHeight
		}
	}
}

func (c *runCtx) restart(kind string) *Rec {
	nd := c.nd
	rec := c.rec(kind, c.h)
	c.twinObs(rec)
	res := nd.Restart()
	if !c.fail(rec, res) {
		if info, ires := nd.Info(); ires.Panic == "" {
			rec.Hash = hex.EncodeToString(info.LastBlockAppHash)
			rec.Resp.Gas = info.LastBlockHeight
		}
		c.infoObs(rec)
		ar := ReadAppRecords(nd.Disk)
		rec.App = &ar
		if rec.Obs != nil {
			rec.Obs.Vals = ar.Vals
			if c.id != nil && !c.idead {
				rec.Ideal.Vals = ReadAppRecords(c.id.Disk).Vals
			}
		}
		c.proj(rec, c.h)
	}
	c.r.emit(rec)
	c.r.Stats["restarts"]++
	return rec
}

func obsResp(o *Obs, code uint32, gas int64, tags map[string]string, data []byte) {
	if o == nil {
		return
	}
	o.Code, o.Gas, o.TagsD, o.Data = code, gas, digest(tags), hex.EncodeToString(data)
}

func updatesOf(nd *Node, er abci.ResponseEndBlock) *RecEnd {
	re := &RecEnd{Updates: []RecValUpd{}}
	for _, u := range er.ValidatorUpdates {
		var pk [32]byte
		copy(pk[:], u.PubKey.GetEd25519())
		re.Updates = append(re.Updates, RecValUpd{P: nd.N.PubName(pk), Power: u.Power})
	}
	sort.Slice(re.Updates, func(i, j int) bool { return re.Updates[i].P < re.Updates[j].P })
	if er.ConsensusParamUpdates != nil && er.ConsensusParamUpdates.Block != nil {
		re.MaxGas = er.ConsensusParamUpdates.Block.MaxGas
	}
	return re
}

func (c *runCtx) block(st *Step) {
	nd := c.nd
	h := c.h + 1
	prevClock := c.clock
	c.clock += nd.W.BlockSeconds + st.Dt
	if st.Hour > 0 {
		t := time.Unix(c.clock, 0).UTC()
		for t.Hour() != st.Hour-1 {
			t = t.Add(time.Hour)
		}
		switch st.Edge {
		case "start":
			t = t.Truncate(time.Hour)
			if t.Unix() <= prevClock {
				t = t.Add(24 * time.Hour)
			}
		case "end":
			t = t.Truncate(time.Hour).Add(3599 * time.Second)
		}
		c.clock = t.Unix()
	}
	t := time.Unix(c.clock, 0).UTC()
	bb := &builtBlock{h: h}
	// BeginBlock
	var req abci.RequestBeginBlock
	rec := c.rec("BeginBlock", h)
	c.twinObs(rec)
	pres := guard(func() { req = nd.BeginReq(h, t, st.Absent, st.Evidence) })
	if c.fail(rec, pres) {
		c.r.emit(rec)
		return
	}
	bb.req = req
	rb := &RecBegin{Time: t.Unix(), Hour: t.Hour(), Absent: append([]string{}, st.Absent...), Evidence: append([]string{}, st.Evidence...), Present: []string{}}
	abs := map[string]bool{}
	for _, a := range st.Absent {
		abs[a] = true
	}
	if cs := nd.App.CurrentState(); cs != nil {
		for _, v := range cs.Validators().GetValidators() {
			name := nd.N.PubName(v.PubKey)
			if !abs[name] {
				rb.Present = append(rb.Present, name)
			}
		}
	}
	sort.Strings(rb.Present)
	rec.Begin = rb
	// halt / unknown version would exit the process: evaluate the decision through the hook instead
	var halt, known bool
	hres := guard(func() {
		halt = nd.App.VerifWouldHalt(h, req.LastCommitInfo.Votes)
		known = nd.App.VerifKnownVersion(h)
	})
	if c.fail(rec, hres) {
		c.r.emit(rec)
		return
	}
	if halt || !known {
		rec.Kind = "Halt"
		if !known {
			rec.Resp.Log = "unknown version"
		}
		c.proj(rec, h)
		c.dead = true
		c.r.emit(rec)
		c.r.Stats["halted"]++
		return
	}
	c.phase("begin")
	res := nd.Begin(req)
	c.phase("between")
	c.queryPanics(rec)
	c.fail(rec, res)
	if c.id != nil && !c.idead {
		if ires := c.id.Begin(req); ires.Panic != "" {
			rec.Ideal.Panic = ires.Panic
			c.idead = true
		}
	}
	c.proj(rec, h)
	c.r.emit(rec)
	if c.dead {
		return
	}
	// transactions
	for ti := range st.Txs {
		spec := st.Txs[ti]
		if spec.ID == "" {
			spec.ID = fmt.Sprintf("t%d_%d", h, ti)
		}
		if spec.Type == "Issue" { // register a check without delivering anything
			c.tb.cs = nd.App.CurrentState()
			c.tb.issueCheck(str(spec.Args["check"]), spec.Args)
			continue
		}
		var bt *BuiltTx
		c.tb.cs = nd.App.CurrentState()
		bres := guard(func() { bt = c.tb.Build(spec) })
		if bres.Panic != "" {
			rec := c.rec("BuildError", h)
			rec.Panic = "harness: " + bres.Panic
			c.dead = true
			c.r.emit(rec)
			return
		}
		bb.raws = append(bb.raws, bt.Raw)
		rtx := &RecTx{ID: spec.ID, Type: spec.Type, Sender: bt.Sender, From: bt.Spec.From, SignedBy: bt.SignedBy, Intact: bt.Intact, Multi: bt.Spec.Multi,
			Nonce: bt.Nonce, Chain: bt.Chain, GasCoin: cstr(bt.GasCoin), GasPrice: cstr(uint64(bt.GasPrice)), Bytes: bt.Bytes, Args: bt.Abs,
			Mut: bt.Spec.Mut, DupOf: bt.DupOf, Hash: shortHash(bt.Raw), Len: len(bt.Raw)}
		if rtx.Type == "" {
			rtx.Type = bt.Spec.Type
		}
		if c.sc.RawBytes {
			rtx.RawB = make([]int, len(bt.Raw))
			for k, x := range bt.Raw {
				rtx.RawB[k] = int(x)
			}
			rtx.Recovered = recoveredSender(nd.N, bt.Raw)
			if len(bt.SignedBy) > 0 {
				rtx.SignerAddr = nd.N.AddrName(nd.N.Addr(bt.SignedBy[0]))
			}
		}
		if rtx.Args == nil {
			rtx.Args = map[string]interface{}{}
		}
		checkCode := int64(-1)
		if spec.Check {
			crec := c.rec("CheckTx", h)
			crec.Tx = rtx
			cr, cres := nd.Check(bt.Raw)
			crec.Resp = RecResp{Code: cr.Code, Gas: cr.GasUsed, Log: cr.Log}
			c.fail(crec, cres)
			c.proj(crec, h)
			c.r.emit(crec)
			if c.dead {
				return
			}
			checkCode = int64(cr.Code)
		}
		drec := c.rec("DeliverTx", h)
		c.twinObs(drec)
		drec.Tx = rtx
		drec.Check = checkCode
		c.phase("deliver")
		dr, dres := nd.Deliver(bt.Raw)
		c.phase("between")
		c.queryPanics(drec)
		tags := tagsOf(dr.Events)
		drec.Resp = RecResp{Code: dr.Code, Gas: dr.GasUsed, Tags: tags, Log: dr.Log}
		obsResp(drec.Obs, dr.Code, dr.GasUsed, tags, dr.Data)
		c.fail(drec, dres)
		if c.id != nil && !c.idead {
			ir, ires := c.id.Deliver(bt.Raw)
			obsResp(drec.Ideal, ir.Code, ir.GasUsed, tagsOf(ir.Events), ir.Data)
			if ires.Panic != "" {
				drec.Ideal.Panic = ires.Panic
				c.idead = true
			}
		}
		// heights named by vote transactions and lock due blocks enter the universe (before the projection of this step)
		for _, k := range []string{"height", "due"} {
			if v, ok := bt.Abs[k]; ok {
				switch x := v.(type) {
				case uint64:
					c.u.VoteH[x], c.u.Heights[x] = true, true
				case uint32:
					c.u.VoteH[uint64(x)], c.u.Heights[uint64(x)] = true, true
				}
				if c.iu != nil {
					for hh := range c.u.VoteH {
						c.iu.VoteH[hh] = true
					}
					for hh := range c.u.Heights {
						c.iu.Heights[hh] = true
					}
				}
			}
		}
		c.proj(drec, h)
		c.r.emit(drec)
		c.r.Stats["tx"]++
		if dr.Code == 0 {
			c.r.Stats["tx_ok"]++
		}
		if c.dead {
			return
		}
	}
	// EndBlock
	erec := c.rec("EndBlock", h)
	c.twinObs(erec)
	c.phase("end")
	er, eres := nd.End(h)
	c.phase("between")
	c.queryPanics(erec)
	c.fail(erec, eres)
	if !c.dead {
		erec.End = updatesOf(nd, er)
		if erec.Obs != nil {
			erec.Obs.Updates = digest(erec.End)
		}
	}
	if c.id != nil && !c.idead {
		ir, ires := c.id.End(h)
		if ires.Panic != "" {
			erec.Ideal.Panic = ires.Panic
			c.idead = true
		} else {
			erec.Ideal.Updates = digest(updatesOf(c.id, ir))
		}
	}
	c.proj(erec, h)
	c.r.emit(erec)
	if c.dead {
		return
	}
	// Commit (possibly with an injected crash)
	crash := st.K > 0 || st.After != ""
	crec := c.rec("Commit", h)
	c.twinObs(crec)
	if c.id != nil && !c.idead {
		ir, ires := c.id.Commit()
		if ires.Panic != "" {
			crec.Ideal.Panic = ires.Panic
			c.idead = true
		} else {
			crec.Ideal.Hash = hex.EncodeToString(ir.Data)
		}
	}
	if crash {
		nd.Disk.WC.ArmLabel(st.K, st.After, st.AfterN)
	} else {
		nd.Disk.WC.Arm(0)
	}
	if st.LateSnap && nd.Snap > 0 {
		nd.Disk.WC.ArmGate()
	}
	c.last = bb
	c.phase("commit")
	cr, cres := nd.Commit()
	c.phase("between")
	c.queryPanics(crec)
	_, crec.Writes = nd.Disk.WC.Disarm()
	if cres.Crashed {
		c.recover(crec, bb, h)
		return
	}
	c.fail(crec, cres)
	if !c.dead {
		crec.Hash = hex.EncodeToString(cr.Data)
		if crec.Obs != nil {
			crec.Obs.Hash = crec.Hash
		}
		c.hashAt[h] = crec.Hash
		c.h = h
		c.diskProjection(crec)
	}
	c.proj(crec, h)
	c.r.emit(crec)
	c.r.Stats["blocks"]++
}

// recover plays the part of Tendermint after the process died during Commit of block h:
// restart, handshake (Info), re-delivery of block h when the application reports h-1, then comparison with the ideal node.
func (c *runCtx) recover(crec *Rec, bb *builtBlock, h uint64) {
	nd := c.nd
	crec.Kind = "Crash"
	if len(crec.Writes) > 0 {
		crec.Fault = crec.Writes[len(crec.Writes)-1]
	}
	crec.Resp.Gas = int64(len(crec.Writes))
	c.r.emit(crec)
	c.r.Stats["crashes"]++
	rrec := c.restart("Recover")
	if c.dead {
		return
	}
	appH := uint64(rrec.Resp.Gas)
	switch {
	case appH == h:
		// Tendermint replays block h against a mock application: the real application sees nothing
	case appH == h-1:
		steps := []string{"BeginBlock"}
		res := nd.Begin(bb.req)
		if res.Panic == "" {
			for _, raw := range bb.raws {
				_, res = nd.Deliver(raw)
				steps = append(steps, "DeliverTx")
				if res.Panic != "" {
					break
				}
			}
		}
		if res.Panic == "" {
			_, res = nd.End(h)
			steps = append(steps, "EndBlock")
		}
		var cr abci.ResponseCommit
		if res.Panic == "" {
			cr, res = nd.Commit()
			steps = append(steps, "Commit")
		}
		rp := c.rec("Replayed", h)
		rp.Replay = true
		c.twinObs(rp)
		rp.Resp.Log = strings.Join(steps, ",")
		if !c.fail(rp, res) {
			rp.Hash = hex.EncodeToString(cr.Data)
			if rp.Obs != nil {
				rp.Obs.Hash = rp.Hash
			}
		}
		c.r.emit(rp)
		if c.dead {
			return
		}
	default:
		// neither h nor h-1: the consensus engine cannot continue from here
		bad := c.rec("Unrecoverable", h)
		bad.Resp.Gas = int64(appH)
		c.dead = true
		c.r.emit(bad)
		return
	}
	c.h = h
	done := c.rec("Recovered", h)
	c.twinObs(done)
	done.Resp.Gas = int64(appH)
	c.infoObs(done)
	c.diskProjection(done)
	c.proj(done, h)
	c.r.emit(done)
	c.r.Stats["blocks"]++
}
