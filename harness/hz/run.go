package hz

import (
	"bufio"
	"encoding/hex"
	"encoding/json"
	"fmt"
	"io"
	"sort"
	"strings"
	"time"

	abci "github.com/tendermint/tendermint/abci/types"
)

// Scenario is a list of abstract steps executed against one (or more) nodes.
type Scenario struct {
	ID       string `json:"id"`
	World    string `json:"world,omitempty"`
	WorldDef *World `json:"worldDef,omitempty"`
	Steps    []Step `json:"steps"`
	Backend  string `json:"backend,omitempty"` // mem | leveldb
	NoProj   bool   `json:"noProj,omitempty"`  // twin mode: no state projection, only responses and hashes
	Family   string `json:"family,omitempty"`
}

// Step is one scenario step.
type Step struct {
	Op       string   `json:"op"` // block | skip | restart | crash | export_import | snapshot
	Txs      []TxSpec `json:"txs,omitempty"`
	Absent   []string `json:"absent,omitempty"`
	Evidence []string `json:"evidence,omitempty"`
	Dt       int64    `json:"dt,omitempty"`   // extra seconds added to the clock before this block
	Hour     int      `json:"hour,omitempty"` // 1..24: move the clock forward to the next time with this hour-1 (UTC)
	N        int      `json:"n,omitempty"`    // skip: number of empty blocks
	K        int      `json:"k,omitempty"`    // crash: die after the k-th write of this block's commit
}

// RecTx is the abstract description of a delivered transaction (ground truth included).
type RecTx struct {
	ID       string                 `json:"id"`
	Type     string                 `json:"type"`
	Sender   string                 `json:"sender"`
	From     string                 `json:"from"`
	SignedBy []string               `json:"signedBy"`
	Intact   bool                   `json:"intact"`
	Multi    bool                   `json:"multi"`
	Nonce    uint64                 `json:"nonce"`
	Chain    int                    `json:"chain"`
	GasCoin  string                 `json:"gasCoin"`
	GasPrice string                 `json:"gasPrice"`
	Bytes    int                    `json:"bytes"`
	Args     map[string]interface{} `json:"args"`
	Mut      string                 `json:"mut"`
	DupOf    string                 `json:"dupOf"`
	Hash     string                 `json:"hash"`
	Len      int                    `json:"len"`
}

type RecResp struct {
	Code uint32            `json:"code"`
	Gas  int64             `json:"gas"`
	Tags map[string]string `json:"tags"`
	Log  string            `json:"log"`
}

type RecBegin struct {
	Time     int64    `json:"time"`
	Hour     int      `json:"hour"`
	Absent   []string `json:"absent"`
	Evidence []string `json:"evidence"`
	Present  []string `json:"present"`
}

type RecValUpd struct {
	P     string `json:"p"`
	Power int64  `json:"power"`
}

type RecEnd struct {
	Updates []RecValUpd `json:"updates"`
	MaxGas  int64       `json:"maxGas"`
}

// Rec is one trace record (one ABCI call or harness step).
type Rec struct {
	Sc     string      `json:"sc"`
	I      int         `json:"i"`
	Node   string      `json:"node"`
	Kind   string      `json:"kind"`
	H      uint64      `json:"h"`
	Tx     *RecTx      `json:"tx,omitempty"`
	Check  int64       `json:"check"` // CheckTx code observed just before delivery, -1 if not called
	Resp   RecResp     `json:"resp"`
	Begin  *RecBegin   `json:"begin,omitempty"`
	End    *RecEnd     `json:"end,omitempty"`
	St     *Abs        `json:"st,omitempty"`
	Disk   *Abs        `json:"disk,omitempty"`
	App    *AppRecords `json:"app,omitempty"`
	Hash   string      `json:"hash"`
	Panic  string      `json:"panic"`
	Stack  string      `json:"stack,omitempty"`
	Writes []string    `json:"writes,omitempty"`
	Unit   string      `json:"unit,omitempty"`
	Cfg    *RecCfg     `json:"cfg,omitempty"`
}

// RecCfg carries the world constants the trace spec needs (first record of every scenario).
type RecCfg struct {
	World        string `json:"world"`
	StakePeriod  uint64 `json:"stakePeriod"`
	ExpirePeriod uint64 `json:"expirePeriod"`
	Initial      uint64 `json:"initial"`
	Unbond       uint64 `json:"unbond"`
	Move         uint64 `json:"move"`
	Jail         uint64 `json:"jail"`
	Chain        int    `json:"chain"`
	Family       string `json:"family"`
}

// Runner executes scenarios and writes trace records.
type Runner struct {
	Out     *bufio.Writer
	WorkDir string
	seq     int
	Stats   map[string]int
}

func NewRunner(w io.Writer, workDir string) *Runner {
	return &Runner{Out: bufio.NewWriterSize(w, 1<<20), WorkDir: workDir, Stats: map[string]int{}}
}

func (r *Runner) emit(rec *Rec) {
	if rec.Resp.Tags == nil {
		rec.Resp.Tags = map[string]string{}
	}
	b, err := json.Marshal(rec)
	if err != nil {
		panic(err)
	}
	r.Out.Write(b)
	r.Out.WriteByte('\n')
	r.Stats["records"]++
	r.Stats["kind:"+rec.Kind]++
}

func tagsOf(evs []abci.Event) map[string]string {
	m := map[string]string{}
	for _, e := range evs {
		for _, a := range e.Attributes {
			m[strings.ReplaceAll(string(a.Key), ".", "_")] = string(a.Value)
		}
	}
	return m
}

type runCtx struct {
	r     *Runner
	sc    *Scenario
	nd    *Node
	u     *Universe
	tb    *txBuilder
	i     int
	h     uint64 // height of the last committed block
	clock int64
	dead  bool
}

func (c *runCtx) rec(kind string, h uint64) *Rec {
	c.i++
	return &Rec{Sc: c.sc.ID, I: c.i, Node: c.nd.ID, Kind: kind, H: h, Check: -1}
}

func (c *runCtx) proj(rec *Rec, h uint64) {
	if c.sc.NoProj || c.dead {
		return
	}
	res := guard(func() { rec.St = ProjectMem(c.nd, c.u, h) })
	if res.Panic != "" && rec.Panic == "" {
		rec.Panic = "projection: " + res.Panic
		rec.Stack = res.Stack
	}
}

func (c *runCtx) fail(rec *Rec, res CallResult) bool {
	if res.Panic == "" {
		return false
	}
	rec.Panic = res.Panic
	rec.Stack = res.Stack
	c.dead = true
	return true
}

// diskProjection exports the committed state with a fresh read-only state and reads the app records back.
func (c *runCtx) diskProjection(rec *Rec) {
	res := guard(func() {
		st := c.nd.App.VerifDeliverState().Export()
		c.u.AbsorbExport(&st)
		if !c.sc.NoProj {
			rec.Disk = ProjectDisk(c.nd, &st, c.u)
			rec.Disk.H = rec.H
		}
		ar := ReadAppRecords(c.nd.Disk)
		rec.App = &ar
	})
	if res.Panic != "" && rec.Panic == "" {
		rec.Panic = "export: " + res.Panic
		rec.Stack = res.Stack
	}
}

// RunScenario executes one scenario on a fresh node.
func (r *Runner) RunScenario(sc *Scenario) {
	w := sc.WorldDef
	if w == nil {
		w = StandardWorld(sc.World)
	}
	n := NewNames()
	backend := sc.Backend
	if backend == "" {
		backend = "mem"
	}
	r.seq++
	dir := fmt.Sprintf("%s/n%d", r.WorkDir, r.seq)
	nd, res := NewNode("A", w, n, backend, dir)
	defer nd.Close()
	c := &runCtx{r: r, sc: sc, nd: nd, u: NewUniverse()}
	c.h = uint64(w.InitialHeight) - 1
	c.clock = w.StartTime
	init := c.rec("Init", c.h)
	init.Unit = w.UnitInt().String()
	init.Cfg = &RecCfg{World: w.Name, StakePeriod: w.StakePeriod, ExpirePeriod: w.ExpirePeriod, Initial: uint64(w.InitialHeight),
		Unbond: 531, Move: 177, Jail: 354, Chain: 2, Family: sc.Family}
	if c.fail(init, res) {
		r.emit(init)
		return
	}
	c.tb = &txBuilder{n: n, unit: w.UnitInt(), built: map[string]*BuiltTx{}, checks: c.u.Checks, height: func() uint64 { return c.h + 1 }}
	c.diskProjection(init)
	c.proj(init, c.h)
	if info, ires := nd.Info(); ires.Panic == "" {
		init.Hash = hex.EncodeToString(info.LastBlockAppHash)
	}
	r.emit(init)
	r.Stats["scenarios"]++
	for si := range sc.Steps {
		if c.dead {
			break
		}
		st := &sc.Steps[si]
		switch st.Op {
		case "block", "":
			c.block(st)
		case "skip":
			k := st.N
			if k == 0 {
				k = 1
			}
			for j := 0; j < k && !c.dead; j++ {
				c.block(&Step{Op: "block"})
			}
		case "restart":
			rec := c.rec("Restart", c.h)
			res := nd.Restart()
			if !c.fail(rec, res) {
				if info, ires := nd.Info(); ires.Panic == "" {
					rec.Hash = hex.EncodeToString(info.LastBlockAppHash)
					rec.Resp.Gas = info.LastBlockHeight
				}
				ar := ReadAppRecords(nd.Disk)
				rec.App = &ar
				c.proj(rec, c.h)
			}
			r.emit(rec)
		default:
			panic("unknown step op " + st.Op)
		}
	}
	if c.dead {
		r.Stats["cut"]++
	}
}

func (c *runCtx) block(st *Step) {
	nd := c.nd
	h := c.h + 1
	c.clock += nd.W.BlockSeconds + st.Dt
	if st.Hour > 0 {
		t := time.Unix(c.clock, 0).UTC()
		for t.Hour() != st.Hour-1 {
			t = t.Add(time.Hour)
		}
		c.clock = t.Unix()
	}
	t := time.Unix(c.clock, 0).UTC()
	// BeginBlock
	var req abci.RequestBeginBlock
	rec := c.rec("BeginBlock", h)
	pres := guard(func() { req = nd.BeginReq(h, t, st.Absent, st.Evidence) })
	if c.fail(rec, pres) {
		c.r.emit(rec)
		return
	}
	rb := &RecBegin{Time: t.Unix(), Hour: t.Hour(), Absent: append([]string{}, st.Absent...), Evidence: append([]string{}, st.Evidence...), Present: []string{}}
	abs := map[string]bool{}
	for _, a := range st.Absent {
		abs[a] = true
	}
	if cs := nd.App.CurrentState(); cs != nil {
		for _, v := range cs.Validators().GetValidators() {
			name := nd.N.PubName(v.PubKey)
			if !abs[name] {
				rb.Present = append(rb.Present, name)
			}
		}
	}
	sort.Strings(rb.Present)
	rec.Begin = rb
	// halt / unknown version would exit the process: evaluate the decision through the hook instead
	var halt, known bool
	hres := guard(func() {
		halt = nd.App.VerifWouldHalt(h, req.LastCommitInfo.Votes)
		known = nd.App.VerifKnownVersion(h)
	})
	if c.fail(rec, hres) {
		c.r.emit(rec)
		return
	}
	if halt || !known {
		rec.Kind = "Halt"
		if !known {
			rec.Resp.Log = "unknown version"
		}
		c.proj(rec, h)
		c.dead = true
		c.r.emit(rec)
		c.r.Stats["halted"]++
		return
	}
	res := nd.Begin(req)
	c.fail(rec, res)
	c.proj(rec, h)
	c.r.emit(rec)
	if c.dead {
		return
	}
	// transactions
	for ti := range st.Txs {
		spec := st.Txs[ti]
		if spec.ID == "" {
			spec.ID = fmt.Sprintf("t%d_%d", h, ti)
		}
		if spec.Type == "Issue" { // register a check without delivering anything
			c.tb.cs = nd.App.CurrentState()
			c.tb.issueCheck(str(spec.Args["check"]), spec.Args)
			continue
		}
		var bt *BuiltTx
		c.tb.cs = nd.App.CurrentState()
		bres := guard(func() { bt = c.tb.Build(spec) })
		if bres.Panic != "" {
			rec := c.rec("BuildError", h)
			rec.Panic = "harness: " + bres.Panic
			c.dead = true
			c.r.emit(rec)
			return
		}
		rtx := &RecTx{ID: spec.ID, Type: spec.Type, Sender: bt.Sender, From: bt.Spec.From, SignedBy: bt.SignedBy, Intact: bt.Intact, Multi: bt.Spec.Multi,
			Nonce: bt.Nonce, Chain: bt.Chain, GasCoin: cstr(bt.GasCoin), GasPrice: cstr(uint64(bt.GasPrice)), Bytes: bt.Bytes, Args: bt.Abs,
			Mut: bt.Spec.Mut, DupOf: bt.DupOf, Hash: shortHash(bt.Raw), Len: len(bt.Raw)}
		if rtx.Type == "" {
			rtx.Type = bt.Spec.Type
		}
		if rtx.Args == nil {
			rtx.Args = map[string]interface{}{}
		}
		checkCode := int64(-1)
		if spec.Check {
			crec := c.rec("CheckTx", h)
			crec.Tx = rtx
			cr, cres := nd.Check(bt.Raw)
			crec.Resp = RecResp{Code: cr.Code, Gas: cr.GasUsed, Log: cr.Log}
			c.fail(crec, cres)
			c.proj(crec, h)
			c.r.emit(crec)
			if c.dead {
				return
			}
			checkCode = int64(cr.Code)
		}
		drec := c.rec("DeliverTx", h)
		drec.Tx = rtx
		drec.Check = checkCode
		dr, dres := nd.Deliver(bt.Raw)
		drec.Resp = RecResp{Code: dr.Code, Gas: dr.GasUsed, Tags: tagsOf(dr.Events), Log: dr.Log}
		c.fail(drec, dres)
		c.proj(drec, h)
		c.r.emit(drec)
		c.r.Stats["tx"]++
		if dr.Code == 0 {
			c.r.Stats["tx_ok"]++
		}
		if c.dead {
			return
		}
		// heights named by vote transactions and lock due blocks enter the universe
		for _, k := range []string{"height", "due"} {
			if v, ok := bt.Abs[k]; ok {
				switch x := v.(type) {
				case uint64:
					c.u.VoteH[x], c.u.Heights[x] = true, true
				case uint32:
					c.u.VoteH[uint64(x)], c.u.Heights[uint64(x)] = true, true
				}
			}
		}
	}
	// EndBlock
	erec := c.rec("EndBlock", h)
	er, eres := nd.End(h)
	c.fail(erec, eres)
	if !c.dead {
		re := &RecEnd{Updates: []RecValUpd{}}
		for _, u := range er.ValidatorUpdates {
			var pk [32]byte
			copy(pk[:], u.PubKey.GetEd25519())
			re.Updates = append(re.Updates, RecValUpd{P: nd.N.PubName(pk), Power: u.Power})
		}
		sort.Slice(re.Updates, func(i, j int) bool { return re.Updates[i].P < re.Updates[j].P })
		if er.ConsensusParamUpdates != nil && er.ConsensusParamUpdates.Block != nil {
			re.MaxGas = er.ConsensusParamUpdates.Block.MaxGas
		}
		erec.End = re
	}
	c.proj(erec, h)
	c.r.emit(erec)
	if c.dead {
		return
	}
	// Commit
	crec := c.rec("Commit", h)
	nd.Disk.WC.Arm(0)
	cr, cres := nd.Commit()
	_, crec.Writes = nd.Disk.WC.Disarm()
	c.fail(crec, cres)
	if !c.dead {
		crec.Hash = hex.EncodeToString(cr.Data)
		c.h = h
		c.diskProjection(crec)
	}
	c.proj(crec, h)
	c.r.emit(crec)
	c.r.Stats["blocks"]++
}
