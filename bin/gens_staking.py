#!/usr/bin/env python3
"""Seeded random scenarios for the staking / governance / reward families (world W2: 4 validators v1..v4 with stakes
1000..4000 BIP owned by o1..o4, offline candidate c5 owned by a5, initial height 10197400, stake period 6)."""

USERS = ["a1", "a2", "a3", "a4", "a5", "a6"]
VALS = ["v1", "v2", "v3", "v4"]
OWNER = {"v1": "o1", "v2": "o2", "v3": "o3", "v4": "o4", "c5": "a5"}


def staking(rnd, n, sid="S"):
    out = []
    for k in range(n):
        steps = []
        tid = [0]

        def nid():
            tid[0] += 1
            return "t%d" % tid[0]
        nblocks = rnd.randint(3, 9)
        declared = []
        for b in range(nblocks):
            txs = []
            for _ in range(rnd.randint(0, 3)):
                a = rnd.choice(USERS)
                r = rnd.random()
                cands = VALS + ["c5"] + declared
                if r < 0.22:
                    txs.append({"id": nid(), "type": "Delegate", "from": a, "args": {"pub": rnd.choice(cands + ["nobody"]), "coin": "BIP", "value": "%du" % rnd.choice([0, 1, 5, 50, 500, 3000])}})
                elif r < 0.40:
                    txs.append({"id": nid(), "type": "Unbond", "from": a, "args": {"pub": rnd.choice(cands), "coin": "BIP", "value": "%du" % rnd.choice([0, 1, 5, 50, 500, 100000])}})
                elif r < 0.52:
                    txs.append({"id": nid(), "type": "MoveStake", "from": a, "args": {"from": rnd.choice(cands), "to": rnd.choice(cands + ["nobody", "ghost"]), "coin": "BIP", "value": "%du" % rnd.choice([0, 1, 5, 50])}})
                elif r < 0.58:
                    txs.append({"id": nid(), "type": "LockStake", "from": a})
                elif r < 0.64:
                    txs.append({"id": nid(), "type": "Lock", "from": a, "args": {"coin": "BIP", "value": "%du" % rnd.randint(1, 20), "due": "h+%d" % rnd.randint(0, 4)}})
                elif r < 0.70:
                    v = rnd.choice(cands)
                    who = rnd.choice([OWNER.get(v, a), OWNER.get(v, a), a, "a6"])
                    txs.append({"id": nid(), "type": rnd.choice(["SetCandidateOn", "SetCandidateOff"]), "from": who, "args": {"pub": v}})
                elif r < 0.75:
                    v = rnd.choice(cands)
                    who = rnd.choice([OWNER.get(v, a), a, "a6"])
                    txs.append({"id": nid(), "type": "EditCandidate", "from": who, "args": {"pub": v, "reward": rnd.choice(USERS), "owner": OWNER.get(v, a), "control": rnd.choice(USERS)}})
                elif r < 0.79:
                    v = rnd.choice(cands)
                    who = rnd.choice([OWNER.get(v, a), a, "a6"])
                    txs.append({"id": nid(), "type": "EditCandidateCommission", "from": who, "args": {"pub": v, "comm": rnd.randint(0, 30)}})
                elif r < 0.805:
                    v = rnd.choice(cands)
                    who = rnd.choice([OWNER.get(v, a), OWNER.get(v, a), a])
                    txs.append({"id": nid(), "type": "EditCandidatePublicKey", "from": who, "args": {"pub": v, "newPub": rnd.choice(["k" + v, "k" + v, "v1", "kx"])}})
                    if who == OWNER.get(v):
                        OWNER["k" + v] = who
                elif r < 0.83 and len(declared) < 2:
                    name = "n%d" % (len(declared) + 1)
                    txs.append({"id": nid(), "type": "DeclareCandidacy", "from": a, "args": {"address": a, "pub": name, "comm": rnd.randint(0, 100), "coin": "BIP", "stake": "%du" % rnd.choice([10, 1000, 5000])}})
                    declared.append(name)
                    OWNER[name] = a
                elif r < 0.93:
                    v = rnd.choice(VALS)
                    kind = rnd.choice(["SetHaltBlock", "VoteUpdate", "VoteCommission"])
                    args = {"pub": v, "height": "h+%d" % rnd.randint(-1, 3)}
                    if kind == "VoteUpdate":
                        args["version"] = rnd.choice(["v320", "v330"])
                    if kind == "VoteCommission":
                        args["variant"] = rnd.randint(1, 2)
                    txs.append({"id": nid(), "type": kind, "from": rnd.choice([OWNER[v], OWNER[v], a]), "args": args})
                else:
                    txs.append({"id": nid(), "type": "Send", "from": a, "args": {"coin": "BIP", "to": rnd.choice(USERS), "value": "%du" % rnd.randint(1, 100)}})
            st = {"op": "block"}
            if txs:
                for t in txs:
                    t["check"] = True
                st["txs"] = txs
            q = rnd.random()
            if q < 0.25:
                st["absent"] = rnd.sample(VALS, rnd.randint(1, 3))
            if q > 0.92:
                st["evidence"] = [rnd.choice(VALS + ["c5", "nobody"]) for _ in range(rnd.randint(1, 2))]
            steps.append(st)
            if rnd.random() < 0.15:
                steps.append({"op": "skip", "n": rnd.choice([6, 12, 177, 178, 531, 532]), "quiet": True})
        steps.append({"op": "skip", "n": 7})
        out.append({"id": "%s%d" % (sid, k), "world": "W2", "family": "staking", "steps": steps})
    return out


def targeted():
    """hand-written shapes for the boundaries named in the properties"""
    S = []

    def sc(name, steps):
        S.append({"id": "T:" + name, "world": "W2", "family": "staking", "steps": steps})
    # move to a key that is not a candidate, then wait for the move period
    sc("move-to-nobody", [{"op": "block", "txs": [{"id": "t1", "type": "Delegate", "from": "a1", "args": {"pub": "v1", "coin": "BIP", "value": "100u"}}]},
                          {"op": "skip", "n": 6},
                          {"op": "block", "txs": [{"id": "t2", "type": "MoveStake", "from": "a1", "args": {"from": "v1", "to": "nobody", "coin": "BIP", "value": "40u"}}]},
                          {"op": "skip", "n": 180, "quiet": True}, {"op": "block"}])
    # lock-stake then unbond / move
    sc("lockstake-exits", [{"op": "block", "txs": [{"id": "t1", "type": "Delegate", "from": "a2", "args": {"pub": "v2", "coin": "BIP", "value": "100u"}}, {"id": "t2", "type": "LockStake", "from": "a2"}]},
                           {"op": "skip", "n": 6},
                           {"op": "block", "txs": [{"id": "t3", "type": "Unbond", "from": "a2", "args": {"pub": "v2", "coin": "BIP", "value": "10u"}},
                                                   {"id": "t4", "type": "MoveStake", "from": "a2", "args": {"from": "v2", "to": "v3", "coin": "BIP", "value": "10u"}},
                                                   {"id": "t5", "type": "MoveStake", "from": "a2", "args": {"from": "v2", "to": "ghost", "coin": "BIP", "value": "10u"}}]},
                           {"op": "skip", "n": 180, "quiet": True}, {"op": "block"}])
    # exits of nothing: no stake at all, a stake already emptied in this block, an empty amount from the wait list
    for who, frm in (("a4", "v2"), ("o2", "v2"), ("a1", "v1"), ("a4", "nobody")):
        sc("unbond-zero-%s-%s" % (who, frm), [{"op": "block", "txs": [{"id": "t1", "type": "Unbond", "from": who, "check": True, "args": {"pub": frm, "coin": "BIP", "value": "0u"}}]}, {"op": "skip", "n": 2}])
        sc("move-zero-%s-%s" % (who, frm), [{"op": "block", "txs": [{"id": "t1", "type": "MoveStake", "from": who, "check": True, "args": {"from": frm, "to": "c5", "coin": "BIP", "value": "0u"}}]}, {"op": "skip", "n": 2}])
    sc("unbond-all-then-zero", [{"op": "block", "txs": [{"id": "t1", "type": "Unbond", "from": "o3", "check": True, "args": {"pub": "v3", "coin": "BIP", "value": "3000u"}},
                                                        {"id": "t2", "type": "Unbond", "from": "o3", "check": True, "args": {"pub": "v3", "coin": "BIP", "value": "0u"}}]},
                                {"op": "block", "txs": [{"id": "t3", "type": "Unbond", "from": "o3", "check": True, "args": {"pub": "v3", "coin": "BIP", "value": "0u"}}]}, {"op": "skip", "n": 2}])
    # a validator leaves the set at an update that is not a payout (forced by a switched-off validator) while it has accumulated rewards:
    # by falling under the minimum stake, or by being switched off itself together with another one
    sc("validator-leaves-with-accum", [{"op": "skip", "n": 3},
                                       {"op": "block", "txs": [{"id": "t1", "type": "Unbond", "from": "o1", "check": True, "args": {"pub": "v1", "coin": "BIP", "value": "100u"}}]},
                                       {"op": "block", "txs": [{"id": "t2", "type": "SetCandidateOff", "from": "o2", "check": True, "args": {"pub": "v2"}}]}, {"op": "skip", "n": 8}])
    sc("validator-leaves-with-accum-2", [{"op": "skip", "n": 3},
                                         {"op": "block", "txs": [{"id": "t1", "type": "Unbond", "from": "o3", "check": True, "args": {"pub": "v3", "coin": "BIP", "value": "2500u"}}]},
                                         {"op": "block"},
                                         {"op": "block", "absent": ["v4"], "txs": [{"id": "t2", "type": "SetCandidateOff", "from": "o1", "check": True, "args": {"pub": "v1"}}]}, {"op": "skip", "n": 8}])
    # evidence against v4 around the block in which the genesis fund moving from v4 to v1 falls due (initial height + 9), and against v2 around
    # the due block of its plain unbonding fund (initial height + 40)
    for off in (5, 8, 9, 10):
        sc("evidence-v4-at-%d" % off, [{"op": "skip", "n": off}, {"op": "block", "evidence": ["v4"]}, {"op": "skip", "n": 8}])
    for off in (39, 40, 41):
        sc("evidence-v2-at-%d" % off, [{"op": "skip", "n": off, "quiet": True}, {"op": "block", "evidence": ["v2"]}, {"op": "skip", "n": 4}])
    # a whole stake unbonded / moved away between a recalculation and the next payout (the emptied stake still earns its share)
    sc("emptied-stake-at-payout", [{"op": "skip", "n": 3},
                                   {"op": "block", "txs": [{"id": "t1", "type": "Unbond", "from": "a5", "check": True, "args": {"pub": "c5", "coin": "BIP", "value": "1500u"}},
                                                           {"id": "t2", "type": "Delegate", "from": "a2", "check": True, "args": {"pub": "v1", "coin": "BIP", "value": "500u"}}]},
                                   {"op": "skip", "n": 6},
                                   {"op": "block", "txs": [{"id": "t3", "type": "Unbond", "from": "a2", "check": True, "args": {"pub": "v1", "coin": "BIP", "value": "500u"}}]},
                                   {"op": "skip", "n": 8}])
    # unbond and wait exactly the unbond period
    sc("unbond-period", [{"op": "block", "txs": [{"id": "t1", "type": "Unbond", "from": "o3", "args": {"pub": "v3", "coin": "BIP", "value": "100u"}}]},
                         {"op": "skip", "n": 529, "quiet": True}, {"op": "block"}, {"op": "block"}, {"op": "block"}])
    # evidence shapes: once, twice in one block, against offline candidate, on a payout height, with unbonding funds
    sc("evidence-once", [{"op": "block", "txs": [{"id": "t1", "type": "Unbond", "from": "o4", "args": {"pub": "v4", "coin": "BIP", "value": "100u"}}]},
                         {"op": "block", "evidence": ["v4"]}, {"op": "skip", "n": 8}])
    sc("evidence-twice", [{"op": "block", "txs": [{"id": "t1", "type": "Unbond", "from": "o4", "args": {"pub": "v4", "coin": "BIP", "value": "100u"}}]},
                          {"op": "block", "evidence": ["v4", "v4"]}, {"op": "skip", "n": 8}])
    sc("evidence-offline", [{"op": "block", "evidence": ["c5", "nobody"]}, {"op": "skip", "n": 3}])
    sc("evidence-payout", [{"op": "skip", "n": 1}, {"op": "block", "evidence": ["v2"]}, {"op": "skip", "n": 8}])
    for off in range(0, 6):
        sc("evidence-h%d" % off, [{"op": "skip", "n": off}, {"op": "block", "evidence": ["v1"]}, {"op": "skip", "n": 7}])
    # absences around the 12/24 threshold, inside and outside the grace period (first 120 blocks)
    sc("absent-grace", [{"op": "skip", "n": 14, "absent": ["v1"]}, {"op": "skip", "n": 3}])
    sc("absent-after-grace", [{"op": "skip", "n": 124, "quiet": True}, {"op": "skip", "n": 12, "absent": ["v1"]}, {"op": "block", "absent": ["v1"]}, {"op": "block", "absent": ["v1"]},
                              {"op": "block", "txs": [{"id": "t1", "type": "SetCandidateOn", "from": "o1", "args": {"pub": "v1"}}]},
                              {"op": "skip", "n": 353, "quiet": True},
                              {"op": "block", "txs": [{"id": "t2", "type": "SetCandidateOn", "from": "o1", "args": {"pub": "v1"}}]},
                              {"op": "block", "txs": [{"id": "t3", "type": "SetCandidateOn", "from": "o1", "args": {"pub": "v1"}}]},
                              {"op": "block", "txs": [{"id": "t4", "type": "SetCandidateOn", "from": "o1", "args": {"pub": "v1"}}]}, {"op": "skip", "n": 7}])
    # governance at the 2/3 boundary: stakes 1000,2000,3000,4000: v2+v4 = 6000 of 9000 present (v1 absent) is exactly 2/3
    for kind, extra in (("VoteUpdate", {"version": "v330"}), ("VoteCommission", {"variant": 1}), ("SetHaltBlock", {})):
        for voters, absent in ((["v2", "v4"], ["v1"]), (["v3", "v4"], []), (["v2", "v3", "v4"], []), (["v4", "v2"], []), (["v1", "v2", "v3"], ["v4"]), (["v1", "v3"], ["v4"])):
            txs = [{"id": "t%d" % i, "type": kind, "from": OWNER[v], "args": dict({"pub": v, "height": "h+2"}, **extra)} for i, v in enumerate(voters)]
            sc("%s-%s-abs%s" % (kind, "".join(voters), "".join(absent)), [{"op": "block", "txs": txs}, {"op": "block"}, {"op": "block", "absent": absent}, {"op": "skip", "n": 3}])
    # a voter that does not sign the block in which the vote is counted: its power counts neither for the proposal nor in the total
    # (stakes 1000..4000): v1+v2+v3 voted, v3 absent -> 3000 of 7000 present; v3+v4 voted, v4 absent -> 3000 of 6000; v2+v3+v4 voted, v2 absent -> 7000 of 8000
    for kind, extra in (("VoteUpdate", {"version": "v330"}), ("VoteCommission", {"variant": 1}), ("SetHaltBlock", {})):
        for voters, absent in ((["v1", "v2", "v3"], ["v3"]), (["v3", "v4"], ["v4"]), (["v2", "v3", "v4"], ["v2"]), (["v1", "v4"], ["v1", "v2"]), (["v4", "v3"], ["v3", "v1"])):
            txs = [{"id": "t%d" % i, "type": kind, "from": OWNER[v], "args": dict({"pub": v, "height": "h+2"}, **extra)} for i, v in enumerate(voters)]
            sc("%s-%s-voterabsent%s" % (kind, "".join(voters), "".join(absent)), [{"op": "block", "txs": txs}, {"op": "block"}, {"op": "block", "absent": absent}, {"op": "skip", "n": 3}])
    # two competing proposals
    sc("two-proposals", [{"op": "block", "txs": [{"id": "t1", "type": "VoteUpdate", "from": "o4", "args": {"pub": "v4", "height": "h+2", "version": "v330"}},
                                                 {"id": "t2", "type": "VoteUpdate", "from": "o3", "args": {"pub": "v3", "height": "h+2", "version": "v320"}},
                                                 {"id": "t3", "type": "VoteUpdate", "from": "o2", "args": {"pub": "v2", "height": "h+2", "version": "v320"}},
                                                 {"id": "t4", "type": "VoteUpdate", "from": "o1", "args": {"pub": "v1", "height": "h+2", "version": "v320"}}]},
                         {"op": "skip", "n": 4}])
    # exits from the waitlist (genesis: a1 has 70 BIP waiting at v1, a2 15 BIP at v3): unbond and move, towards candidates, ghosts and itself
    for who, frm, val in (("a1", "v1", "70u"), ("a1", "v1", "30u"), ("a1", "v1", "71u"), ("a2", "v3", "15u")):
        for to in ("v2", "ghost", frm):
            sc("move-waitlist-%s-%s-%s" % (who, val, to), [{"op": "block", "txs": [{"id": "t1", "type": "MoveStake", "from": who, "args": {"from": frm, "to": to, "coin": "BIP", "value": val}}]},
                                                            {"op": "skip", "n": 176, "quiet": True}, {"op": "skip", "n": 4}])
        sc("unbond-waitlist-%s-%s" % (who, val), [{"op": "block", "txs": [{"id": "t1", "type": "Unbond", "from": who, "args": {"pub": frm, "coin": "BIP", "value": val}}]}, {"op": "skip", "n": 3}])
    # who may change a candidate's settings (C05): v2's owner is o2, its control address a6; commission 20, edits within +-10 are well-formed
    for who in ("a6", "o2", "a1", "o3"):
        sc("commission-by-%s" % who, [{"op": "block", "txs": [{"id": "t1", "type": "EditCandidateCommission", "from": who, "args": {"pub": "v2", "comm": 25}}]}, {"op": "skip", "n": 2}])
        sc("edit-candidate-by-%s" % who, [{"op": "block", "txs": [{"id": "t1", "type": "EditCandidate", "from": who, "args": {"pub": "v2", "reward": who, "owner": who, "control": who}}]}, {"op": "skip", "n": 2}])
        sc("switch-by-%s" % who, [{"op": "block", "txs": [{"id": "t1", "type": "SetCandidateOff", "from": who, "args": {"pub": "v2"}}]},
                                  {"op": "block", "txs": [{"id": "t2", "type": "SetCandidateOn", "from": who, "args": {"pub": "v2"}}]}, {"op": "skip", "n": 2}])
    # a validator's candidate changes its public key at every offset from a payout height (period 6), alone and with accumulated rewards
    for off in range(0, 6):
        sc("pubkey-change-h%d" % off, [{"op": "skip", "n": off},
                                       {"op": "block", "txs": [{"id": "t1", "type": "EditCandidatePublicKey", "from": "o2", "args": {"pub": "v2", "newPub": "kv2"}}]},
                                       {"op": "skip", "n": 8},
                                       {"op": "block", "txs": [{"id": "t2", "type": "Delegate", "from": "a1", "args": {"pub": "kv2", "coin": "BIP", "value": "10u"}},
                                                               {"id": "t3", "type": "Delegate", "from": "a1", "args": {"pub": "v2", "coin": "BIP", "value": "10u"}}]},
                                       {"op": "skip", "n": 7}])
    sc("pubkey-change-twice", [{"op": "block", "txs": [{"id": "t1", "type": "EditCandidatePublicKey", "from": "o2", "args": {"pub": "v2", "newPub": "kv2"}},
                                                       {"id": "t2", "type": "EditCandidatePublicKey", "from": "o3", "args": {"pub": "v3", "newPub": "kv3"}}]},
                               {"op": "block", "txs": [{"id": "t3", "type": "EditCandidatePublicKey", "from": "o2", "args": {"pub": "kv2", "newPub": "v2"}},
                                                       {"id": "t4", "type": "EditCandidatePublicKey", "from": "a6", "args": {"pub": "v4", "newPub": "kv4"}},
                                                       {"id": "t5", "type": "EditCandidatePublicKey", "from": "o4", "args": {"pub": "v4", "newPub": "kv3"}}]},
                               {"op": "skip", "n": 8}])
    # competing proposals of every vote kind, in both orders of creation (the first vote creates the proposal)
    def vote(kind, v, what):
        args = {"pub": v, "height": "h+2"}
        if kind == "VoteUpdate":
            args["version"] = ["v320", "v330"][what]
        else:
            args["variant"] = what + 1
        return {"id": "x%s%d" % (v, what), "type": kind, "from": OWNER[v], "args": args}
    for kind in ("VoteUpdate", "VoteCommission"):
        # stakes: v1 1000, v2 2000, v3 3000, v4 4000 (total 10000): v2+v3+v4 = 90%, v1 = 10%
        for name, order in (("minority-first", [("v1", 0), ("v2", 1), ("v3", 1), ("v4", 1)]), ("majority-first", [("v2", 1), ("v3", 1), ("v4", 1), ("v1", 0)]),
                            ("interleaved", [("v4", 1), ("v1", 0), ("v3", 1), ("v2", 1)]), ("split", [("v4", 0), ("v3", 1), ("v2", 1), ("v1", 0)]),
                            ("three-way", [("v1", 0), ("v4", 1), ("v2", 0), ("v3", 1)])):
            sc("%s-competing-%s" % (kind, name), [{"op": "block", "txs": [vote(kind, v, w) for v, w in order]}, {"op": "skip", "n": 2},
                                                    {"op": "block", "txs": [{"id": "s1", "type": "Send", "from": "a1", "args": {"coin": "BIP", "to": "a2", "value": "1u"}}]}, {"op": "skip", "n": 2}])
    return S


def crowd(rnd, n):
    """world W4: candidate v1 has all 1000 slots taken (smallest stake 2000 BIP); CRRHUN is worth 2 BIP per unit; period 3"""
    out = []
    shapes = [("CRRHUN", "900u"), ("CRRHUN", "999u"), ("CRRHUN", "1000u"), ("CRRHUN", "1001u"), ("CRRHUN", "1500u"), ("CRRHUN", "3000u"),
              ("BIP", "1999u"), ("BIP", "2000u"), ("BIP", "2001u"), ("BIP", "5000u"), ("BIP", "100u")]
    for k in range(n):
        steps = []
        txs = []
        tid = 0
        for a in rnd.sample(["a1", "a2", "a3", "a4"], rnd.randint(1, 3)):
            c, v = rnd.choice(shapes)
            tid += 1
            txs.append({"id": "t%d" % tid, "type": "Delegate", "from": a, "args": {"pub": "v1", "coin": c, "value": v}})
        if rnd.random() < 0.3:
            tid += 1
            txs.append({"id": "t%d" % tid, "type": "Unbond", "from": "d%d" % rnd.choice([5, 1000]), "args": {"pub": "v1", "coin": "BIP", "value": rnd.choice(["3000u", "2000u", "10u"])}})
        steps.append({"op": "skip", "n": rnd.randint(0, 2)})
        steps.append({"op": "block", "txs": txs})
        steps.append({"op": "skip", "n": 4})
        if rnd.random() < 0.5:
            tid += 1
            steps.append({"op": "block", "txs": [{"id": "t%d" % tid, "type": "Delegate", "from": "a1", "args": {"pub": "v1", "coin": rnd.choice(["BIP", "CRRHUN"]), "value": rnd.choice(["2500u", "1100u"])}}]})
            steps.append({"op": "skip", "n": 3})
        out.append({"id": "CR%d" % k, "world": "W4", "family": "staking", "steps": steps})
    return out
