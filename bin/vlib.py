#!/usr/bin/env python3
"""Shared machinery of the checks: build, scenario corpus, driver, TLC trace validation, model checking,
verdicts against known_findings.json, evidence."""
import concurrent.futures as cf
import hashlib
import json
import os
import random
import re
import shutil
import subprocess
import sys
import time

ROOT = os.path.dirname(os.path.dirname(os.path.abspath(__file__)))   # /verif, or a snapshot of it (vp run)
WORK = os.environ.get("VERIF_TMP", os.path.join(ROOT, ".work"))
SPEC = os.path.join(ROOT, "spec")
JAR = "/opt/veriftools/tla/tla2tools.jar"
CM = "/opt/veriftools/tla/CommunityModules-deps.jar"
GOENV = dict(os.environ, GOFLAGS="-mod=mod", GOPROXY="off", GOSUMDB="off", GOTOOLCHAIN="local")
NCPU = min(16, os.cpu_count() or 4)


class Inconclusive(Exception):
    pass


def log(*a):
    print(*a, file=sys.stderr, flush=True)


def sh(cmd, timeout=None, env=None, cwd=None, check=False):
    p = subprocess.run(cmd, shell=isinstance(cmd, str), stdout=subprocess.PIPE, stderr=subprocess.STDOUT, timeout=timeout, env=env, cwd=cwd)
    out = p.stdout.decode("utf-8", "replace")
    if check and p.returncode != 0:
        raise Inconclusive("command failed (%d): %s\n%s" % (p.returncode, cmd if isinstance(cmd, str) else " ".join(cmd), out[-3000:]))
    return p.returncode, out


def sha(*parts):
    h = hashlib.sha256()
    for p in parts:
        h.update(p if isinstance(p, bytes) else str(p).encode())
        h.update(b"\0")
    return h.hexdigest()[:16]


def file_hash(paths):
    h = hashlib.sha256()
    for p in sorted(paths):
        if os.path.isfile(p):
            h.update(p.encode())
            h.update(open(p, "rb").read())
    return h.hexdigest()[:16]


def spec_hash():
    fs = []
    for d, _, names in os.walk(SPEC):
        if "/t" in d.replace(SPEC, "") and d.endswith("/t"):
            continue
        for n in names:
            if n.endswith((".tla", ".cfg", ".java")) and "_TTrace_" not in n:
                fs.append(os.path.join(d, n))
    return file_hash(fs)


def harness_hash():
    fs = []
    for d, _, names in os.walk(os.path.join(ROOT, "harness")):
        for n in names:
            if n.endswith(".go") or n in ("go.mod",):
                fs.append(os.path.join(d, n))
    for n in os.listdir(os.path.join(ROOT, "bin")):
        fs.append(os.path.join(ROOT, "bin", n))
    for n in os.listdir(os.path.join(ROOT, "scenarios")):  # regression scenarios are part of every corpus
        fs.append(os.path.join(ROOT, "scenarios", n))
    return file_hash(fs)


def repo_hash():
    _, head = sh("git -C /repo rev-parse HEAD")
    _, diff = sh("git -C /repo diff HEAD")
    _, untracked = sh("git -C /repo ls-files --others --exclude-standard")
    extra = b""
    for f in untracked.split():
        p = os.path.join("/repo", f)
        if os.path.isfile(p) and os.path.getsize(p) < 1 << 20:
            extra += open(p, "rb").read()
    return sha(head, diff, untracked, extra)


# ---------------------------------------------------------------------------------------------- build
def build():
    os.makedirs(os.path.join(WORK, "bin"), exist_ok=True)
    cls = os.path.join(SPEC, "lib/big/BigInt.class")
    src = os.path.join(SPEC, "lib/big/BigInt.java")
    if not os.path.exists(cls) or os.path.getmtime(cls) < os.path.getmtime(src):
        sh(["javac", "-cp", JAR, src], check=True, timeout=300)
    gomod = os.path.join(ROOT, "harness/go.mod")
    if not os.path.exists(gomod) or not os.path.exists(os.path.join(ROOT, "harness/go.sum")) \
            or open("/repo/go.sum", "rb").read() != open(os.path.join(ROOT, "harness/go.sum"), "rb").read():
        sh([os.path.join(ROOT, "bin/mkgomod")], check=True)
    t0 = time.time()
    rc, out = sh(["go", "build", "-tags", "verif", "-o", os.path.join(WORK, "bin/driver"), "./cmd/driver"],
                 env=GOENV, cwd=os.path.join(ROOT, "harness"), timeout=1500)
    if rc != 0:
        raise Inconclusive("harness does not build against /repo:\n" + out[-4000:])
    for exe in ("evdriver", "fdriver"):
        rc, out = sh(["go", "build", "-tags", "verif", "-o", os.path.join(WORK, "bin", exe), "./cmd/" + exe],
                     env=GOENV, cwd=os.path.join(ROOT, "harness"), timeout=1500)
        if rc != 0:
            raise Inconclusive("%s does not build against /repo:\n" % exe + out[-4000:])
    log("build: %.1fs" % (time.time() - t0))


# ---------------------------------------------------------------------------------------------- TLC
def tlc_cmd(module_dir, module, cfg, meta, lib, extra=(), big=False, env_extra=None):
    cp = JAR + ":" + CM + (":" + os.path.join(SPEC, "lib/big") if big else "")
    cmd = ["java", "-XX:+UseParallelGC", "-Xss64m", "-Xmx6g", "-DTLA-Library=%s:%s" % (lib, SPEC), "-cp", cp, "tlc2.TLC",
           "-nowarning", "-noGenerateSpecTE", "-metadir", meta, "-config", cfg] + list(extra) + [module + ".tla"]
    return cmd


def run_tlc_trace(trace, meta, module="MCTrace"):
    """Validates one trace file; returns dict(viol=[...], cov={}, lines=int, ok=bool, out=str)."""
    os.makedirs(meta, exist_ok=True)
    cmd = tlc_cmd(os.path.join(SPEC, "trace"), module, module + ".cfg", meta, os.path.join(SPEC, "lib/big"), ["-workers", "1"], big=True)
    env = dict(os.environ, TRACE=trace)
    try:
        rc, out = sh(cmd, timeout=3600, env=env, cwd=os.path.join(SPEC, "trace"))
    finally:
        shutil.rmtree(meta, ignore_errors=True)
    res = {"viol": [], "drift": [], "cov": {}, "lines": -1, "ok": False, "out": out[-3000:], "rc": rc}
    for line in out.splitlines():
        if line.startswith('"VIOL ') or line.startswith('"DRIFT ') or line.startswith('"COV ') or line.startswith('"LINES '):
            try:
                s = json.loads(line)
            except Exception:
                continue
            tag, _, rest = s.partition(" ")
            if tag == "VIOL":
                res["viol"].append(json.loads(rest))
            elif tag == "DRIFT":
                res["drift"].append(json.loads(rest))
            elif tag == "COV":
                res["cov"] = json.loads(rest)
            elif tag == "LINES":
                res["lines"] = int(rest)
    n = sum(1 for _ in open(trace))
    res["ok"] = rc == 0 and res["lines"] == n and "Model checking completed. No error has been found." in out
    return res


def run_equiv(module):
    """TLC on an ASSUME-only module of spec/ind that compares the integer copies used by the lemmas with the operators of the main specification."""
    ind = os.path.join(SPEC, "ind")
    meta = os.path.join(WORK, "equiv-%d" % os.getpid())
    cp = "/opt/veriftools/tla/tla2tools.jar:/opt/veriftools/tla/CommunityModules-deps.jar"
    rc, out = sh(["java", "-XX:+UseParallelGC", "-DTLA-Library=%s:%s:%s" % (os.path.join(SPEC, "lib/nat"), SPEC, ind), "-cp", cp, "tlc2.TLC", "-nowarning",
                  "-metadir", meta, "-config", module + ".cfg", module + ".tla"], timeout=300, cwd=ind)
    shutil.rmtree(meta, ignore_errors=True)
    return "EQ-OK" in out and "No error has been found" in out


def run_apalache(path, lemmas, init="IndInit", timeout=300):
    """Unbounded lemmas (spec/ind/*.tla): for each (next, action invariant) Apalache checks one step from ANY state satisfying `init`.
    Returns the record format of run_mc; a timeout or a missing tool is recorded (not proved), a counterexample is a model error."""
    d = os.path.join(WORK, "apalache-%d" % os.getpid())
    shutil.rmtree(d, ignore_errors=True)
    os.makedirs(d)
    t0 = time.time()
    proved, failed, unknown = [], [], []
    for nxt, inv in lemmas:
        try:
            rc, out = sh(["apalache-mc", "check", "--init=" + init, "--next=" + nxt, "--inv=" + inv, "--length=1", "--out-dir=" + os.path.join(d, "out"), path], timeout=timeout, cwd=d)
        except Exception as e:  # timeout, tool missing
            unknown.append("%s/%s (%s)" % (nxt, inv, type(e).__name__))
            continue
        if "The outcome is: NoError" in out:
            proved.append("%s/%s" % (nxt, inv))
        elif "The outcome is: Error" in out:
            failed.append("%s/%s" % (nxt, inv))
        else:
            unknown.append("%s/%s (rc %s)" % (nxt, inv, rc))
    shutil.rmtree(d, ignore_errors=True)
    return {"ok": not failed, "timeout": False, "apalache": True, "states": 0, "distinct": 0, "depth": 1, "violated": failed, "proved": proved, "not_proved": unknown,
            "out": "", "wall_s": time.time() - t0}


def run_sim(module, cfg, seconds, depth=80, workers=NCPU, seed=1):
    """Random simulation of a model too large to enumerate (TLC -simulate), for a fixed time: behaviours of `depth` steps are drawn until
    the time is over; every property and invariant of the cfg is checked on each. Returns the same record as run_mc (not exhaustive)."""
    meta = os.path.join(WORK, "sim-%s-%d" % (module, os.getpid()))
    cmd = ["timeout", str(seconds)] + tlc_cmd(SPEC, module, cfg, meta, os.path.join(SPEC, "lib/nat"),
                                              ["-workers", str(workers), "-simulate", "num=100000000", "-depth", str(depth), "-seed", str(seed)])
    t0 = time.time()
    rc, out = sh(cmd, timeout=seconds + 120, cwd=SPEC)
    shutil.rmtree(meta, ignore_errors=True)
    res = {"ok": False, "timeout": False, "simulation": True, "states": 0, "distinct": 0, "depth": depth, "violated": [], "out": out[-2500:], "wall_s": time.time() - t0, "rc": rc}
    ms = re.findall(r"Progress: (\d+) states checked, (\d+) traces generated", out)
    if ms:
        res["states"], res["traces"] = int(ms[-1][0]), int(ms[-1][1])
    res["violated"] = re.findall(r"(?:Action property|Invariant|Temporal property) (\S+) (?:is|was) violated", out)
    res["ok"] = not res["violated"] and "Error:" not in out and bool(ms)
    res["reached"] = sorted(set(re.findall(r"REACH (\w+)", out)))
    return res


def run_mc(module, cfg, tier, workers=NCPU, timeout=None, extra=()):
    """Exhaustive TLC run on the model; returns dict(states, distinct, depth, ok, violated, out)."""
    timeout = timeout or (3600 if tier == "thorough" else 1500)
    meta = os.path.join(WORK, "mc-%s-%d" % (module, os.getpid()))
    cmd = tlc_cmd(SPEC, module, cfg, meta, os.path.join(SPEC, "lib/nat"), ["-workers", str(workers)] + list(extra))
    t0 = time.time()
    try:
        rc, out = sh(cmd, timeout=timeout, cwd=SPEC)
    except subprocess.TimeoutExpired:
        shutil.rmtree(meta, ignore_errors=True)
        return {"ok": False, "timeout": True, "states": 0, "distinct": 0, "depth": 0, "violated": [], "out": "timeout", "wall_s": time.time() - t0}
    shutil.rmtree(meta, ignore_errors=True)
    res = {"ok": False, "timeout": False, "states": 0, "distinct": 0, "depth": 0, "violated": [], "out": out[-2500:], "wall_s": time.time() - t0, "rc": rc}
    m = re.search(r"(\d+) states generated, (\d+) distinct states found", out)
    if m:
        res["states"], res["distinct"] = int(m.group(1)), int(m.group(2))
    m = re.search(r"depth of the complete state graph search is (\d+)", out)
    if m:
        res["depth"] = int(m.group(1))
    res["violated"] = re.findall(r"(?:Action property|Invariant|Temporal property) (\S+) (?:is|was) violated", out)
    res["ok"] = "No error has been found" in out
    res["reached"] = sorted(set(re.findall(r"REACH (\w+)", out)))   # vacuity guard of the model (MCStaking.ReachStep)
    res["full"] = out
    return res


# ---------------------------------------------------------------------------------------------- scenarios from TLC
AMOUNT_KEYS = {"value", "amount", "reserve", "max", "stake", "min", "v0", "v1", "max1", "min0", "min1", "liquidity", "sellValue", "buyValue"}


def conv_amount(v):
    if isinstance(v, (int, float)):
        return "%du" % int(v)
    return v


def conv_args(ttype, a):
    a = dict(a)
    a.pop("malleated", None)
    if ttype in ("CreateMultisig", "EditMultisig"):
        seq = a.get("ownerSeq", [])
        return {"owners": seq, "weights": [a["owners"][o] for o in seq], "threshold": a["threshold"]}
    if ttype == "RedeemCheck":
        out = {"check": a["check"], "issue": {"issuer": a["issuer"], "coin": a["checkCoin"], "gasCoin": a["checkGasCoin"],
                                              "value": conv_amount(a["value"]), "due": a["due"], "chain": a["checkChain"]}}
        if not a.get("proofOk", True):
            out["proofPassword"] = "wrong-password"
        return out
    if ttype == "Multisend":
        return {"list": [{"coin": it["coin"], "to": it["to"], "value": conv_amount(it["value"])} for it in a["list"]]}
    out = {}
    for k, v in a.items():
        out[k] = conv_amount(v) if k in AMOUNT_KEYS else v
    return out


def scn_to_scenario(steps, sid, world, family, check=True):
    blocks = []
    cur = None
    for s in steps:
        op = s["op"]
        if op == "begin":
            cur = {"op": "block", "txs": []}
            for k in ("absent", "evidence", "hour", "dt"):
                if k in s and s[k]:
                    cur[k] = s[k]
            blocks.append(cur)
        elif op == "tx":
            t = {"id": s["id"], "type": s["type"], "from": s["from"], "sign": list(s.get("sign", [])), "nonce": s.get("nonce", "next"),
                 "args": conv_args(s["type"], s.get("args", {})), "check": check}
            if s.get("multi"):
                t["multi"] = True
            if s.get("mut"):
                t["mut"] = s["mut"]
            if s.get("repeat"):
                t = {"id": s["id"], "repeat": s["repeat"], "check": check}
            for k in ("gasCoin", "gasPrice", "payload"):
                if k in s and s[k]:
                    t[k] = s[k]
            cur["txs"].append(t)
        elif op in ("restart", "skip", "crash", "export_import", "snapshot"):
            blocks.append(dict(s))
    for b in blocks:
        if b.get("op") == "block" and not b["txs"]:
            del b["txs"]
    return {"id": sid, "world": world, "family": family, "steps": blocks + [{"op": "block"}]}


def tlc_generate_raw(module, cfg, extra=(), timeout=1500, big=False):
    """Runs a generation config and returns the distinct `SCN` step lists it printed (cached by spec hash).
    big: amounts are decimal strings (real pip values) instead of small native integers."""
    key = sha(spec_hash(), module, cfg, " ".join(extra), big)
    cache = os.path.join(WORK, "cache")
    os.makedirs(cache, exist_ok=True)
    path = os.path.join(cache, "raw-%s-%s.ndjson" % (module, key))
    if not os.path.exists(path):
        meta = os.path.join(WORK, "gen-%s-%d" % (module, os.getpid()))
        cmd = tlc_cmd(SPEC, module, cfg, meta, os.path.join(SPEC, "lib/big" if big else "lib/nat"), ["-workers", "1"] + list(extra), big=big)
        rc, out = sh(cmd, timeout=timeout, cwd=SPEC)
        shutil.rmtree(meta, ignore_errors=True)
        if "is violated" in out or "Error:" in out:
            raise Inconclusive("MODEL-ERROR: TLC reports an error while generating from %s/%s:\n%s" % (module, cfg, out[-1500:]))
        seen = set()
        with open(path + ".tmp", "w") as f:
            for line in out.splitlines():
                if not line.startswith('"SCN '):
                    continue
                steps = json.loads(json.loads(line)[4:])
                k = json.dumps(steps, sort_keys=True)
                if k in seen:
                    continue
                seen.add(k)
                f.write(k + "\n")
        if not seen:
            raise Inconclusive("TLC generated no scenarios for %s/%s:\n%s" % (module, cfg, out[-2000:]))
        os.rename(path + ".tmp", path)
    return [json.loads(l) for l in open(path)]


def run_driver_only(scenarios, tag):
    """Runs scenarios through the driver and returns the trace records (no TLC)."""
    rundir = os.path.join(WORK, "ref-%s-%d" % (tag, os.getpid()))
    shutil.rmtree(rundir, ignore_errors=True)
    os.makedirs(rundir)
    p = os.path.join(rundir, "scn.ndjson")
    with open(p, "w") as f:
        for s in scenarios:
            f.write(json.dumps(s) + "\n")
    trace = os.path.join(rundir, "trace.ndjson")
    rc, out = sh([os.path.join(WORK, "bin/driver"), "-scenarios", p, "-out", trace, "-work", os.path.join(rundir, "db")], timeout=3000)
    if rc != 0:
        shutil.rmtree(rundir, ignore_errors=True)
        raise Inconclusive("driver failed on reference run: " + out[-1500:])
    recs = [json.loads(l) for l in open(trace)]
    shutil.rmtree(rundir, ignore_errors=True)
    return recs


def tlc_generate(module, cfg, world, family, extra=(), timeout=1500):
    """Runs a generation config and returns the list of scenarios (cached by spec hash)."""
    key = sha(spec_hash(), module, cfg, world, " ".join(extra))
    cache = os.path.join(WORK, "cache")
    os.makedirs(cache, exist_ok=True)
    path = os.path.join(cache, "scn-%s-%s.ndjson" % (module, key))
    if not os.path.exists(path):
        meta = os.path.join(WORK, "gen-%s-%d" % (module, os.getpid()))
        cmd = tlc_cmd(SPEC, module, cfg, meta, os.path.join(SPEC, "lib/nat"), ["-workers", "1"] + list(extra))
        rc, out = sh(cmd, timeout=timeout, cwd=SPEC)
        shutil.rmtree(meta, ignore_errors=True)
        seen = set()
        n = 0
        with open(path + ".tmp", "w") as f:
            for line in out.splitlines():
                if not line.startswith('"SCN '):
                    continue
                steps = json.loads(json.loads(line)[4:])
                k = json.dumps(steps, sort_keys=True)
                if k in seen:
                    continue
                seen.add(k)
                n += 1
                f.write(json.dumps(scn_to_scenario(steps, "%s-%d" % (family, n), world, family)) + "\n")
        if n == 0:
            raise Inconclusive("TLC generated no scenarios for %s/%s:\n%s" % (module, cfg, out[-2000:]))
        os.rename(path + ".tmp", path)
    return [json.loads(l) for l in open(path)]


# ---------------------------------------------------------------------------------------------- corpus execution
def run_may_die(scn_path, trace, rundir, i, stats):
    """C25: a Go runtime fatal error (concurrent map read and write ...) kills the driver process. The death is itself an
    observation: it is appended to the trace as a `Fatal` record of the scenario that was running, and the remaining
    scenarios are run by a new process."""
    todo = [json.loads(l) for l in open(scn_path) if l.strip()]
    parts = []
    total = {}
    for attempt in range(len(todo) + 1):
        if not todo:
            break
        part_s = os.path.join(rundir, "scnC%d_%d.ndjson" % (i, attempt))
        part_t = os.path.join(rundir, "traceC%d_%d.ndjson" % (i, attempt))
        with open(part_s, "w") as f:
            for s in todo:
                f.write(json.dumps(s) + "\n")
        st = part_t + ".stats"
        rc, out = sh([os.path.join(WORK, "bin/driver"), "-scenarios", part_s, "-out", part_t, "-work", os.path.join(rundir, "dbC%d_%d" % (i, attempt)), "-stats", st], timeout=3000)
        parts.append(part_t)
        if os.path.exists(st):
            for k, v in json.load(open(st)).items():
                total[k] = total.get(k, 0) + v
        if rc == 0:
            todo = []
            break
        # which scenario was running?
        last, n, ended = None, 0, False
        if os.path.exists(part_t):
            for line in open(part_t):
                try:
                    r = json.loads(line)
                except Exception:
                    ended = True      # a torn last line
                    continue
                last, n = r["sc"], r["i"]
        if last is None:
            return "driver died before the first record: " + out[-1200:]
        m = re.search(r"(fatal error: [^\n]*|panic: [^\n]*)", out)
        msg = m.group(1) if m else ("driver exit code %d: %s" % (rc, out[-300:]))
        with open(part_t, "a") as f:
            if ended:
                f.write("\n")
            f.write(json.dumps({"sc": last, "i": n + 1, "node": "A", "kind": "Fatal", "h": 0, "check": -1, "resp": {"code": 0, "gas": 0, "tags": {}, "log": ""},
                                "hash": "", "panic": msg, "replay": False}) + "\n")
        total["fatal"] = total.get("fatal", 0) + 1
        ids = [s["id"] for s in todo]
        todo = todo[ids.index(last) + 1:] if last in ids else []
    with open(trace, "w") as f:
        for pt in parts:
            if os.path.exists(pt):
                for line in open(pt):
                    if line.strip():
                        try:
                            json.loads(line)
                        except Exception:
                            continue
                        f.write(line if line.endswith("\n") else line + "\n")
    json.dump(total, open(stats, "w"))
    return None


def second_process(scn_path, trace, rundir, i):
    """C08: the same scenarios in a second operating-system process with another scheduler / collector / database setting;
    its observations become the `ideal` side of every record of the first process' trace."""
    p2 = os.path.join(rundir, "scnB%d.ndjson" % i)
    with open(p2, "w") as f:
        for k, line in enumerate(open(scn_path)):
            s = json.loads(line)
            if k % 2 == 0:
                s["backend"] = "leveldb"
            f.write(json.dumps(s) + "\n")
    trace2 = os.path.join(rundir, "traceB%d.ndjson" % i)
    env = dict(os.environ, GOMAXPROCS="1", GOGC="30")
    rc, out = sh([os.path.join(WORK, "bin/driver"), "-scenarios", p2, "-out", trace2, "-work", os.path.join(rundir, "dbB%d" % i)], timeout=3000, env=env)
    if rc != 0:
        return "second driver process rc=%d: %s" % (rc, out[-1500:])
    other = {}
    for line in open(trace2):
        r = json.loads(line)
        other[(r["sc"], r["i"])] = r
    tmp = trace + ".joined"
    with open(tmp, "w") as f:
        for line in open(trace):
            r = json.loads(line)
            if "obs" in r:
                o = other.get((r["sc"], r["i"]))
                if o is None or o["kind"] != r["kind"] or "obs" not in o:
                    ideal = {k: "" if isinstance(v, str) else 0 for k, v in r["obs"].items()}
                    ideal["panic"] = "the second process has no such record (%s)" % (o["kind"] if o else "trace ended")
                else:
                    ideal = o["obs"]
                    ideal["panic"] = o["panic"]
                r["obs"]["panic"] = r["panic"]
                r["ideal"] = ideal
            f.write(json.dumps(r) + "\n")
    os.rename(tmp, trace)
    os.remove(trace2)
    return None


def run_corpus(scenarios, tag, shards=None):
    """Runs scenarios through the driver and validates the traces with TLC. Returns aggregated results."""
    if not scenarios:
        return {"viol": [], "cov": {}, "lines": 0, "traces": 0, "stats": {}, "classes": {}, "samples": [], "errors": [], "drift": []}
    shards = shards or max(1, min(NCPU, (len(scenarios) + 7) // 8))
    rundir = os.path.join(WORK, "run-%s-%d" % (tag, os.getpid()))
    shutil.rmtree(rundir, ignore_errors=True)
    os.makedirs(rundir)
    files = []
    for i in range(shards):
        part = scenarios[i::shards]
        if not part:
            continue
        p = os.path.join(rundir, "scn%d.ndjson" % i)
        with open(p, "w") as f:
            for s in part:
                f.write(json.dumps(s) + "\n")
        files.append((i, p))

    def one(item):
        i, p = item
        trace = os.path.join(rundir, "trace%d.ndjson" % i)
        stats = os.path.join(rundir, "stats%d.json" % i)
        if tag in ("events", "bancor"):
            exe, module = {"events": ("evdriver", "MCEvTrace"), "bancor": ("fdriver", "MCBcTrace")}[tag]
            rc, out = sh([os.path.join(WORK, "bin", exe), "-scenarios", p, "-out", trace, "-work", os.path.join(rundir, "db%d" % i)], timeout=3000)
            if rc != 0:
                return {"error": "%s rc=%d: %s" % (exe, rc, out[-1500:])}
            r = run_tlc_trace(trace, os.path.join(rundir, "meta%d" % i), module=module)
            r["trace"] = trace
            classes, scs = {}, set()
            for line in open(trace):
                rec = json.loads(line)
                scs.add(rec["sc"])
                k = rec["kind"] + ("/" + rec["ev"]["t"] if rec.get("ev") else "") + ("/%s/crr%s" % (rec["fn"], rec["crr"]) if rec.get("fn") else "") + ("/panic" if rec["panic"] else "")
                classes[k] = classes.get(k, 0) + 1
            r["classes"], r["samples"], r["stats"] = classes, [], {"scenarios": len(scs), "records": sum(classes.values())}
            return r
        if tag == "concurrency":
            err = run_may_die(p, trace, rundir, i, stats)
            if err:
                return {"error": err}
            rc = 0
        else:
            rc, out = sh([os.path.join(WORK, "bin/driver"), "-scenarios", p, "-out", trace, "-work", os.path.join(rundir, "db%d" % i), "-stats", stats], timeout=3000)
        if rc != 0:
            return {"error": "driver rc=%d: %s" % (rc, out[-1500:])}
        if tag == "determinism":
            err = second_process(p, trace, rundir, i)
            if err:
                return {"error": err}
        r = run_tlc_trace(trace, os.path.join(rundir, "meta%d" % i))
        r["stats"] = json.load(open(stats)) if os.path.exists(stats) else {}
        r["trace"] = trace
        # step classes and samples straight from the trace
        classes = {}
        samples = []
        for line in open(trace):
            rec = json.loads(line)
            if rec["kind"] == "DeliverTx":
                tx = rec["tx"]
                k = "%s/%s/%s/%s%s" % (tx["type"], rec["resp"]["code"], tx.get("mut", ""), "g" + tx["gasCoin"] if tx["gasCoin"] != "0" else "", "/dup" if tx.get("dupOf") else "")
                classes[k] = classes.get(k, 0) + 1
                if len(samples) < 2:
                    samples.append({"sc": rec["sc"], "i": rec["i"], "tx": tx, "code": rec["resp"]["code"]})
            elif rec["kind"] in ("Halt", "Restart") or rec["panic"]:
                k = "%s/%s" % (rec["kind"], "panic" if rec["panic"] else "")
                classes[k] = classes.get(k, 0) + 1
        r["classes"] = classes
        r["samples"] = samples
        return r

    agg = {"viol": [], "cov": {}, "lines": 0, "traces": 0, "stats": {}, "classes": {}, "samples": [], "errors": [], "drift": []}
    with cf.ThreadPoolExecutor(max_workers=NCPU) as ex:
        for r in ex.map(one, files):
            if "error" in r:
                agg["errors"].append(r["error"])
                continue
            if not r["ok"]:
                agg["errors"].append("TLC did not accept trace %s: %s" % (r.get("trace"), r["out"][-1200:]))
                continue
            agg["viol"] += [v for v in r["viol"] if v.get("prop") != "DRIFT"]
            agg["drift"] += r["drift"] + [v for v in r["viol"] if v.get("prop") == "DRIFT"]     # conformance to the executable model (Conformance.tla)
            for k, v in r["cov"].items():
                agg["cov"][k] = agg["cov"].get(k, 0) + v
            for k, v in r["classes"].items():
                agg["classes"][k] = agg["classes"].get(k, 0) + v
            for k, v in r["stats"].items():
                agg["stats"][k] = agg["stats"].get(k, 0) + v
            agg["lines"] += r["lines"]
            agg["samples"] += r["samples"]
    agg["traces"] = agg["stats"].get("scenarios", 0)
    agg["rundir"] = rundir
    return agg


# ---------------------------------------------------------------------------------------------- verdicts
def load_known():
    p = os.path.join(ROOT, "known_findings.json")
    if not os.path.exists(p):
        return []
    return json.load(open(p))


def dig(d, path):
    cur = d
    for k in path.split("."):
        if isinstance(cur, dict) and k in cur:
            cur = cur[k]
        else:
            return None
    return cur


def match_known(v, known):
    for e in known:
        if e.get("status") != "open" or e.get("property") != v.get("prop"):
            continue
        ok = True
        for k, want in e.get("match", {}).items():
            got = v.get("clause") if k == "clause" else dig(v, k)
            if isinstance(want, list):
                if got not in want:
                    ok = False
            elif got != want:
                ok = False
        if ok:
            return e
    return None


def write_evidence(pid, tier, seed, level, coverage, wall, violations, assumptions):
    os.makedirs(os.path.join(ROOT, "evidence"), exist_ok=True)
    ev = {"property_id": pid, "tier": tier, "seed": seed, "level": level, "coverage": coverage, "assumptions": assumptions,
          "wall_s": round(wall, 2), "violations": violations}
    with open(os.path.join(ROOT, "evidence", pid + ".json"), "w") as f:
        json.dump(ev, f, indent=1, sort_keys=True)
