#!/usr/bin/env python3
"""Scenarios for the block-reward rule (C28) in the parametrised world WR (see harness/hz/world.go rewardWorld):
behaviours of the model MCRewards (price moves, block hours, elapsed time) and seeded random histories with the
boundaries of the rule in the genesis (price record exactly -10% / -9.5% / -9% away, switched-off records about to
recover, emission a few rewards below the cap)."""
import math


class Pool:
    """tracks the BIP/USDT pool approximately (0.2% fee) to size trades that move the price to a target"""

    def __init__(self, p):
        self.r0 = 1000000.0
        self.r1 = p * 1000.0

    def trade_to(self, target_thousandths):
        q = target_thousandths / 1000.0
        k = self.r0 * self.r1
        r0n = math.sqrt(k / q)
        if r0n > self.r0:
            amt = max(1, int((r0n - self.r0) / 0.998))
            out = self.r1 * amt * 0.998 / (self.r0 + amt * 0.998)
            self.r0 += amt
            self.r1 -= out
            return {"type": "SellSwapPool", "args": {"coins": ["BIP", "USDTE"], "value": "%du" % amt, "min": "0"}}
        r1n = math.sqrt(k * q)
        amt = max(1, int((r1n - self.r1) / 0.998))
        out = self.r0 * amt * 0.998 / (self.r1 + amt * 0.998)
        self.r1 += amt
        self.r0 -= out
        return {"type": "SellSwapPool", "args": {"coins": ["USDTE", "BIP"], "value": "%du" % amt, "min": "0"}}

    def price(self):
        return 1000.0 * self.r1 / self.r0


def block_step(hour, over3h):
    st = {"op": "block", "hour": hour + 1}          # harness: hour h+1 means "move the clock forward to hour h"
    if over3h:
        st["dt"] = 86400
    return st


def from_model(raw):
    out = []
    for i, ms in enumerate(raw):
        p0 = ms[0]["p"]
        rest = ms[1:]
        world_p = p0
        if rest and rest[0]["op"] == "trade":          # a trade before the first block: the genesis pool already has the new price
            world_p = rest[0]["p"]
            rest = rest[1:]
        world = "WR/p=%d/pusdt=%d" % (world_p, p0 * 1000)
        pool = Pool(world_p)
        steps = []
        tid = 0
        for s in rest:
            if s["op"] == "block":
                steps.append(block_step(s["hour"], s["over3h"]))
            else:                                       # the trade happens in the block before the next BeginBlock
                tid += 1
                tx = pool.trade_to(s["p"])
                tx.update({"id": "t%d" % tid, "from": "a1"})
                if steps and "txs" not in steps[-1]:
                    steps[-1]["txs"] = [tx]
                else:
                    steps.append({"op": "block", "txs": [tx]})
        steps += [{"op": "block"}, {"op": "block"}]
        out.append({"id": "rwm-%d" % i, "world": world, "family": "rewards", "steps": steps})
    return out


def rewards(rnd, n, sid="R"):
    out = []
    for k in range(n):
        parts = ["WR", "p=10"]
        r = rnd.random()
        if r < 0.5:
            parts.append("pbip=%d" % rnd.choice([900000, 905000, 909090, 910000, 1000000, 1200000, 800000, 990000]))
        if rnd.random() < 0.4:
            parts += ["off=1", "last=%d" % rnd.choice([0, 40, 95, 100, 101, 105, 110, 111, 200])]
        if rnd.random() < 0.6:
            parts.append("ptime=%d" % rnd.choice([3600, 10000, 10795, 10800, 10805, 86400]))
        if rnd.random() < 0.3:
            parts.append("em=cap-%d" % rnd.choice([50, 100, 250, 600, 1500]))
        pool = Pool(10)
        steps = []
        tid = 0
        for b in range(rnd.randint(6, 24)):
            st = {"op": "block"}
            q = rnd.random()
            if q < 0.55:
                st["hour"] = rnd.choice([12, 13, 14, 15, 16, 16, 13]) + 0
                if rnd.random() < 0.4:                 # the first / last second of that hour: 12:00:00, 14:59:59, 15:00:00, 11:59:59
                    st["edge"] = rnd.choice(["start", "end"])
                if rnd.random() < 0.6:
                    st["dt"] = rnd.choice([3600, 10800, 86400, 86400])
            elif q < 0.7:
                st["dt"] = rnd.choice([60, 3600, 7200])
            if rnd.random() < 0.45:
                tid += 1
                target = pool.price() * rnd.choice([0.7, 0.85, 0.895, 0.9, 0.905, 0.91, 0.95, 1.0, 1.05, 1.2, 1.5])
                tx = pool.trade_to(target)
                tx.update({"id": "t%d" % tid, "from": rnd.choice(["a1", "a2", "a3"])})
                st["txs"] = [tx]
            if rnd.random() < 0.1:
                tid += 1
                st.setdefault("txs", []).append({"id": "t%d" % tid, "type": "LockStake", "from": "a4"})
            if rnd.random() < 0.1:
                st["absent"] = [rnd.choice(["v1", "v2"])]
            steps.append(st)
        steps.append({"op": "block"})
        out.append({"id": "%s%d" % (sid, k), "world": "/".join(parts), "family": "rewards", "steps": steps})
    return out


def window_edges():
    """The daily window to the second: the first block of a stake period (period 2: odd heights) stamped 11:59:59, 12:00:00,
    14:59:59 and 15:00:00, more than three hours after the previous update, with a price that moved in between; both parities
    of the number of leading blocks, so that one of the two variants puts the edged block on a period start."""
    out = []
    for hour, edge in ((11, "end"), (12, "start"), (14, "end"), (15, "start")):
        for lead in (1, 2, 3):
            for ptime in (3600, 86400):
                pool = Pool(10)
                tx = pool.trade_to(pool.price() * 1.2)
                tx.update({"id": "t1", "from": "a1"})
                steps = [{"op": "block"} for _ in range(lead)]
                steps[-1]["txs"] = [tx]
                steps.append({"op": "block", "hour": hour + 1, "edge": edge, "dt": 86400})
                steps += [{"op": "block"}, {"op": "block", "hour": hour + 1, "edge": edge, "dt": 86400}, {"op": "block"}, {"op": "block"}]
                out.append({"id": "rwe-%d%s-%d-%d" % (hour, edge[0], lead, ptime), "world": "WR/p=10/ptime=%d" % ptime, "family": "rewards", "steps": steps})
    return out
