#!/usr/bin/env python3
"""Additional generators written after seeded changes were missed (see DESIGN.md, section 'seeded changes')."""


def absence_wrap(rnd, n):
    """durability: a validator misses blocks, signs again one window (24 blocks) later, the node restarts, somebody misses again.
    The absence window is a cached record that is rewritten only when marked dirty."""
    out = []
    for k in range(n):
        v = rnd.choice(["v1", "v2"])
        steps = [{"op": "skip", "n": rnd.randint(1, 3)}]
        misses = rnd.choice([1, 3, 12])
        steps.append({"op": "skip", "n": misses, "absent": [v]})
        steps.append({"op": "skip", "n": 24 - misses + rnd.randint(0, 2)})
        steps.append({"op": "skip", "n": misses + rnd.randint(0, 1)})
        steps.append({"op": "restart"})
        steps.append({"op": "block", "absent": [rnd.choice(["v1", "v2"])]})
        steps.append({"op": "skip", "n": 3})
        if rnd.random() < 0.5:
            steps.insert(3, {"op": "restart"})
        out.append({"id": "AW%d" % k, "world": "WD", "family": "durability", "twin": True, "lean": True, "steps": steps})
    return out
