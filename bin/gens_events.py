#!/usr/bin/env python3
"""Scenarios for the events store (C24): behaviours of EventsStore.tla and seeded random ones with every event kind,
many addresses and keys, restarts; the thorough tier also pushes the number of distinct validator keys past 2^16."""

KINDS = ["reward", "slash", "kick", "unbond", "jail", "unlock", "order", "move", "remove", "network", "blockreward"]


def from_model(raw):
    out = []
    for i, ms in enumerate(raw):
        steps = []
        for s in ms:
            if s["op"] == "add":
                e = s["ev"]
                steps.append({"op": "add", "ev": {"kind": e["kind"], "addr": e["addr"], "key": e["key"], "key2": e["key2"]}})
            else:
                steps.append(dict(s))
        out.append({"id": "evm-%d" % i, "family": "events", "steps": steps + [{"op": "restart"}]})
    return out


def events(rnd, n, sid="E"):
    out = []
    for k in range(n):
        steps = []
        h = 0
        na, nk = rnd.choice([2, 5, 40, 300]), rnd.choice([1, 3, 20, 300])
        for b in range(rnd.randint(2, 7)):
            for _ in range(rnd.randint(0, 12)):
                kind = rnd.choice(KINDS)
                ev = {"kind": kind, "addr": "A%d" % rnd.randint(1, na), "key": "P%d" % rnd.randint(1, nk), "key2": "P%d" % rnd.randint(1, nk),
                      "amount": rnd.choice(["0", "1", "255", "256", "1000000000000000000", "340282366920938463463374607431768211456", "99999999999999999999999999999999999"]),
                      "coin": rnd.choice([0, 1, 7, 1993, 65535, 65536, 4294967295])}
                if kind == "unbond" and rnd.random() < 0.3:
                    ev["key"] = "-"
                steps.append({"op": "add", "ev": ev})
            h += rnd.choice([1, 1, 1, 5])
            steps.append({"op": "commit", "h": h})
            if rnd.random() < 0.35:
                steps.append({"op": "restart"})
        steps.append({"op": "restart"})
        out.append({"id": "%s%d" % (sid, k), "family": "events", "backend": rnd.choice(["mem", "mem", "leveldb"]), "steps": steps})
    return out


def many_keys(n_keys):
    """events that name the first keys, then n_keys more distinct keys, then events naming old and new keys, across a restart"""
    first = [{"op": "add", "ev": {"kind": "unbond", "addr": "A1", "key": "P1", "key2": "-"}}, {"op": "add", "ev": {"kind": "unbond", "addr": "A2", "key": "-", "key2": "-"}},
             {"op": "add", "ev": {"kind": "jail", "addr": "-", "key": "P2", "key2": "-"}}, {"op": "commit", "h": 1}]
    mid = [{"op": "bulk", "n": n_keys, "h": 2}]
    last = [{"op": "add", "ev": {"kind": "slash", "addr": "A1", "key": "P3", "key2": "-"}}, {"op": "add", "ev": {"kind": "unbond", "addr": "A3", "key": "-", "key2": "-"}},
            {"op": "add", "ev": {"kind": "move", "addr": "A1", "key": "P1", "key2": "P4"}}, {"op": "commit", "h": 3}, {"op": "restart"},
            {"op": "add", "ev": {"kind": "jail", "addr": "-", "key": "P5", "key2": "-"}}, {"op": "commit", "h": 4}, {"op": "restart"}]
    return {"id": "keys-%d" % n_keys, "family": "events", "steps": first + mid + last}
