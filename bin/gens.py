#!/usr/bin/env python3
"""Seeded random scenario generators (real magnitudes, long histories). One function per family."""
import random

MUTS = ["flip-data", "flip-nonce", "flip-sig", "high-s", "bad-v", "zero-r", "trunc-1", "trunc-half", "trunc-head", "append-byte",
        "garbage", "empty", "nil-data", "unknown-type", "wrong-arity", "big-payload", "big-service", "huge-gasprice", "zero-gasprice",
        "noncanon-int", "long-len-prefix", "unknown-sigtype", "nested-garbage"]


def amount(rnd, hi_units=2000):
    """boundary-heavy amounts"""
    k = rnd.random()
    if k < 0.1:
        return "0"
    if k < 0.2:
        return str(rnd.choice([1, 2, 999, 10 ** 10, 10 ** 10 - 1]))
    if k < 0.3:
        return "%du" % rnd.choice([1, 2, 10, 1000])
    if k < 0.35:
        return "%du" % (10 ** rnd.randint(6, 15))
    return "%du+%d" % (rnd.randint(0, hi_units), rnd.randint(0, 10 ** 9))


def ledger(rnd, n, world="W1", sid="L"):
    out = []
    users = ["a1", "a2", "a3", "a4"]
    for k in range(n):
        steps = []
        txid = [0]
        sent = []
        ms = None
        checks = 0

        def nid():
            txid[0] += 1
            return "t%d" % txid[0]
        nblocks = rnd.randint(1, 4)
        for b in range(nblocks):
            txs = []
            for _ in range(rnd.randint(0, 4)):
                r = rnd.random()
                t = {"id": nid(), "check": True}
                a = rnd.choice(users)
                if r < 0.30:
                    t.update(type="Send", **{"from": a}, args={"coin": "BIP", "to": rnd.choice(users + ["zero", "dao"]), "value": amount(rnd)})
                elif r < 0.40:
                    t.update(type="Multisend", **{"from": a}, args={"list": [{"coin": "BIP", "to": rnd.choice(users), "value": amount(rnd, 50)} for _ in range(rnd.randint(1, 4))]})
                elif r < 0.48 and ms is None:
                    owners = rnd.sample(users, rnd.randint(1, 4))
                    weights = [rnd.choice([1, 2, 3, 500, 1023, 1024]) if rnd.random() < 0.2 else rnd.randint(1, 3) for _ in owners]
                    th = rnd.randint(1, sum(w for w in weights) + 1)
                    q3 = rnd.random()
                    if q3 < 0.12 and len(weights) > 1:
                        weights = weights[:-1]                     # more owners than weights
                        th = min(th, max(1, sum(weights)))
                    elif q3 < 0.2:
                        weights = weights + [1]                    # more weights than owners
                    t.update(type="CreateMultisig", **{"from": a}, args={"owners": owners, "weights": weights, "threshold": th})
                    ms = {"name": "ms:" + t["id"], "owners": owners}
                elif r < 0.60 and ms is not None:
                    if rnd.random() < 0.4:
                        t.update(type="Send", **{"from": rnd.choice(users)}, args={"coin": "BIP", "to": ms["name"], "value": "%du" % rnd.randint(1, 100)})
                    else:
                        k2 = rnd.randint(1, 4)
                        signers = [rnd.choice(users + ["o1"]) for _ in range(k2)]
                        t.update(type=rnd.choice(["Send", "Send", "EditMultisig"]), **{"from": ms["name"]}, sign=signers, multi=True)
                        if t["type"] == "Send":
                            t["args"] = {"coin": "BIP", "to": rnd.choice(users), "value": "%du" % rnd.randint(0, 5)}
                        else:
                            ow = rnd.sample(users, rnd.randint(1, 3))
                            t["args"] = {"owners": ow, "weights": [rnd.randint(1, 3) for _ in ow], "threshold": rnd.randint(1, 7)}
                elif r < 0.70:
                    t.update(type="Lock", **{"from": a}, args={"coin": "BIP", "value": amount(rnd, 100), "due": "h+%d" % rnd.randint(-1, 3)})
                elif r < 0.82:
                    checks += 1
                    issuer = rnd.choice(users)
                    cid = "k%d" % (checks if rnd.random() < 0.7 else max(1, checks - 1))
                    t.update(type="RedeemCheck", **{"from": a}, args={"check": cid, "issue": {"issuer": issuer, "coin": "BIP", "gasCoin": "BIP", "value": amount(rnd, 100),
                             "due": "h+%d" % rnd.randint(-1, 2), "chain": rnd.choice([2, 2, 2, 1])}})
                    if rnd.random() < 0.2:
                        t["args"]["proofPassword"] = "bad"
                    if rnd.random() < 0.1:
                        t["args"]["proofFor"] = rnd.choice(users)
                elif r < 0.92 and sent:
                    t = {"id": t["id"], "repeat": rnd.choice(sent), "check": True}
                else:
                    t.update(type="Send", **{"from": a}, args={"coin": "BIP", "to": rnd.choice(users), "value": "1u"}, mut=rnd.choice(MUTS))
                if "type" in t:
                    q = rnd.random()
                    if q < 0.08:
                        t["nonce"] = rnd.choice(["stale", "future"])
                    if q > 0.9 or rnd.random() < 0.06:
                        t["payload"] = rnd.choice([1, 10, 1000, 1024])
                    if 0.5 < q < 0.56 or rnd.random() < 0.08:     # drawn independently: a payload together with a gas price above one
                        t["gasPrice"] = rnd.choice([2, 3, 7, 4294967295])
                    if 0.3 < q < 0.33:
                        t["chain"] = 1
                    if 0.4 < q < 0.43 and not t.get("multi"):
                        t["sign"] = [rnd.choice(users)]  # signed by somebody else: the signer is the sender
                sent.append(t["id"])
                txs.append(t)
            steps.append({"op": "block", "txs": txs} if txs else {"op": "block"})
        steps.append({"op": "skip", "n": rnd.randint(1, 5)})
        out.append({"id": "%s%d" % (sid, k), "world": world, "family": "ledger", "steps": steps})
    return out


def durability_histories(rnd, n, sid="D"):
    """histories in world WD (payout/validator update every even block, price update possible on odd blocks)"""
    out = []
    users = ["a1", "a2", "a3", "a4"]
    for k in range(n):
        steps = []
        nblocks = rnd.randint(3, 7)
        tid = 0
        for b in range(nblocks):
            txs = []
            for _ in range(rnd.randint(0, 2)):
                tid += 1
                a = rnd.choice(users)
                r = rnd.random()
                if r < 0.5:
                    txs.append({"id": "t%d" % tid, "type": "Send", "from": a, "args": {"coin": "BIP", "to": rnd.choice(users), "value": amount(rnd, 100)}})
                elif r < 0.7:
                    txs.append({"id": "t%d" % tid, "type": "Delegate", "from": a, "args": {"pub": rnd.choice(["v1", "v2"]), "coin": "BIP", "value": "%du" % rnd.randint(1, 50)}})
                elif r < 0.8:
                    txs.append({"id": "t%d" % tid, "type": "Lock", "from": a, "args": {"coin": "BIP", "value": "%du" % rnd.randint(1, 9), "due": "h+%d" % rnd.randint(1, 3)}})
                elif r < 0.9:
                    txs.append({"id": "t%d" % tid, "type": "VoteUpdate", "from": "o1", "args": {"pub": "v1", "version": "v330", "height": "h+%d" % rnd.randint(1, 2)}})
                    tid += 1
                    txs.append({"id": "t%d" % tid, "type": "VoteUpdate", "from": "o2", "args": {"pub": "v2", "version": "v330", "height": "h+%d" % rnd.randint(1, 2)}})
                else:
                    txs.append({"id": "t%d" % tid, "type": "SellSwapPool", "from": a, "args": {"coins": ["BIP", "USDTE"], "value": "%du" % rnd.randint(1000, 200000), "min": "0"}})
            st = {"op": "block"}
            if txs:
                st["txs"] = txs
            if rnd.random() < 0.35:
                st["hour"] = 13
                st["dt"] = 86400
            steps.append(st)
        out.append({"id": "%s%d" % (sid, k), "world": "WD", "family": "durability", "twin": True, "steps": steps})
    return out


def with_restarts(rnd, hist, copies):
    """inserts restarts at random block boundaries (including several in a row)"""
    out = []
    for h in hist:
        for c in range(copies):
            steps = []
            for st in h["steps"]:
                steps.append(st)
                r = rnd.random()
                if r < 0.35:
                    steps.append({"op": "restart"})
                    if r < 0.1:
                        steps.append({"op": "restart"})
            steps += [{"op": "restart"}, {"op": "block"}, {"op": "block"}]
            s = dict(h)
            s["id"] = "%s.r%d" % (h["id"], c)
            s["steps"] = steps
            out.append(s)
    return out


def with_crash(hist, block_index, k, label=None, nth=0, tail=2):
    """the history up to block_index, whose commit dies after the k-th write, then `tail` more blocks"""
    steps = []
    bi = -1
    for st in hist["steps"]:
        if st.get("op", "block") == "block":
            bi += 1
            if bi == block_index:
                st = dict(st)
                if label:
                    st["after"], st["afterN"] = label, nth
                else:
                    st["k"] = k
                steps.append(st)
                break
        steps.append(st)
    rest = [s for s in hist["steps"] if s.get("op", "block") == "block"][block_index + 1:block_index + 1 + tail]
    steps += rest + [{"op": "block"}]
    s = dict(hist)
    s["id"] = "%s.c%d.%d" % (hist["id"], block_index, k)
    s["steps"] = steps
    s["twin"] = True
    return s


def multisig_wide(rnd, n, world="W1"):
    """multisig accounts with many owners (up to the maximum of 32) and signature lists that repeat one owner -- the first, a middle one,
    the last -- as often as the threshold needs: distinct owners must reach the threshold, whatever slot they sit in"""
    out = []
    for k in range(n):
        size = rnd.choice([32, 32, 31, 17, 8, 33])
        owners = ["m%d" % (i + 1) for i in range(size)]
        th = rnd.choice([2, size // 2 + 1, min(size, 17)])
        steps = [{"op": "block", "txs": [{"id": "t1", "check": True, "type": "CreateMultisig", "from": "a1", "args": {"owners": owners, "weights": [1] * size, "threshold": th}},
                                         {"id": "t2", "check": True, "type": "Send", "from": "a2", "args": {"coin": "BIP", "to": "ms:t1", "value": "50u"}}]}]
        txs = []
        tid = 2
        for slot in rnd.sample([1, 2, size // 2, size - 1, size, size], 4):
            slot = max(1, min(size, slot))
            tid += 1
            reps = rnd.choice([th, th, th + 1, 2])
            signers = ["m%d" % slot] * reps
            if rnd.random() < 0.3:
                signers = ["m%d" % rnd.randint(1, size)] + signers[:-1]      # one other owner and the repeated one
            txs.append({"id": "t%d" % tid, "check": True, "type": "Send", "from": "ms:t1", "multi": True, "sign": signers[:40],
                        "args": {"coin": "BIP", "to": "a3", "value": "1u"}})
        tid += 1
        txs.append({"id": "t%d" % tid, "check": True, "type": "Send", "from": "ms:t1", "multi": True, "sign": rnd.sample(owners, min(size, th)),
                    "args": {"coin": "BIP", "to": "a3", "value": "1u"}})
        rnd.shuffle(txs)
        steps.append({"op": "block", "txs": txs[:3]})
        steps.append({"op": "block", "txs": txs[3:]})
        steps.append({"op": "block"})
        out.append({"id": "MW%d" % k, "world": world, "family": "ledger", "steps": steps})
    return out


def check_boundaries():
    """check redemptions at the edge of the issuer's funds (world W1u: every price is one unit, a2 owns 3 units): the issuer holds exactly the
    value, the value plus the fee minus one pip, exactly value plus fee -- with the check's coin equal to its gas coin"""
    out = []
    for name, spend, value in (("exact-value", "1u", "1u"), ("value-only-2", "0", "2u"), ("value-plus-fee", "0", "1u"), ("all", "1u", "0")):
        txs = []
        if spend != "-":
            txs.append({"id": "t1", "check": True, "type": "Send", "from": "a2", "args": {"coin": "BIP", "to": "a1", "value": spend}})
        txs.append({"id": "t2", "check": True, "type": "RedeemCheck", "from": "a3",
                    "args": {"check": "kb", "issue": {"issuer": "a2", "coin": "BIP", "gasCoin": "BIP", "value": value, "due": 900, "chain": 2}}})
        out.append({"id": "CB:" + name, "world": "W1u", "family": "ledger", "steps": [{"op": "block", "txs": txs}, {"op": "block"}, {"op": "block"}]})
    # one pip short of value plus fee
    out.append({"id": "CB:one-pip-short", "world": "W1u", "family": "ledger", "steps": [
        {"op": "block", "txs": [{"id": "t1", "check": True, "type": "Send", "from": "a2", "args": {"coin": "BIP", "to": "a1", "value": "1"}},
                                {"id": "t2", "check": True, "type": "RedeemCheck", "from": "a3",
                                 "args": {"check": "kb", "issue": {"issuer": "a2", "coin": "BIP", "gasCoin": "BIP", "value": "1u", "due": 900, "chain": 2}}}]},
        {"op": "block"}]})
    return out

