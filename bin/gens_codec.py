#!/usr/bin/env python3
"""Scenarios for C23: histories of every world in which one transaction per block is delivered in a rewritten encoding that
says the same thing non-canonically (outer list, integer fields, data field re-encoded before signing, signature values and
their encoding) -- delivered INSTEAD of the canonical form, with the right nonce, so that acceptance shows as code 0."""
import copy

import gens
import gens_markets
import gens_staking

POST = ["nc-leadzero:0", "nc-leadzero:1", "nc-leadzero:2", "nc-leadzero:3", "nc-leadzero:4", "nc-leadzero:8",
        "nc-single:0", "nc-single:1", "nc-single:2", "nc-single:3", "nc-single:4", "nc-single:8",
        "nc-long:0", "nc-long:5", "nc-long:6", "nc-long:7", "nc-long:9", "nc-long:outer", "nc-lenzero:outer", "nc-lenzero:5", "nc-lenzero:9",
        "nc-tail:outer", "nc-sig-leadzero:0", "nc-sig-leadzero:1", "nc-sig-leadzero:2", "nc-sig-long", "nc-sig-tail", "nc-sig-single:0"]
PRE = ["pre-data-long", "pre-data-lenzero", "pre-data-tail", "pre-data-leadzero", "pre-data-single"]
SIG = ["high-s", "bad-v", "zero-r"]


def codec(rnd, n_each, sid="Q"):
    hist = gens.ledger(rnd, n_each, sid=sid + "L") + gens_staking.staking(rnd, n_each, sid=sid + "S") + gens_markets.markets(rnd, n_each, sid=sid + "M")
    out = []
    for h in hist:
        s = copy.deepcopy(h)
        s["family"] = "codec"
        s["rawBytes"] = True
        for st in s["steps"]:
            txs = [t for t in st.get("txs", []) if "type" in t and not t.get("mut") and not t.get("multi")]
            if not txs:
                continue
            t = rnd.choice(txs)
            if t["type"] == "RedeemCheck" and rnd.random() < 0.7:
                t["mut"] = rnd.choice(["pre-check-long", "pre-check-tail", "pre-check-leadzero", "pre-check-single", "pre-check-highs"])
                continue
            r = rnd.random()
            if r < 0.12:
                # the boundary of the short form: an item of exactly 55 bytes (and its neighbours) written in the long form
                t["payload"] = rnd.choice([54, 55, 55, 55, 56])
                t["mut"] = "nc-long:6"
                t.pop("nonce", None)
                t.pop("chain", None)
                continue
            t["mut"] = rnd.choice(POST) if r < 0.6 else rnd.choice(PRE) if r < 0.85 else rnd.choice(SIG)
            t.pop("nonce", None)
            t.pop("chain", None)
        out.append(s)
    return out


def check_variants():
    """a valid check redeemed in each rewritten encoding (and once in the canonical one)"""
    out = []
    for i, cls in enumerate(["", "pre-check-long", "pre-check-tail", "pre-check-leadzero", "pre-check-single", "pre-check-highs"]):
        for j, (coin, val) in enumerate([("BIP", "5u"), ("BIP", "100"), ("BIP", "70000u")]):
            t = {"id": "t1", "type": "RedeemCheck", "from": "a1", "check": True,
                 "args": {"check": "k1", "issue": {"issuer": "a2", "coin": coin, "gasCoin": "BIP", "value": val, "due": "h+5", "chain": 2}}}
            if cls:
                t["mut"] = cls
            out.append({"id": "QC%d_%d" % (i, j), "world": "W1", "family": "codec", "rawBytes": True,
                        "steps": [{"op": "block", "txs": [t]}, {"op": "block"}]})
    return out
