#!/usr/bin/env python3
"""Seeded random scenarios for coins / bancor / pools / orders (world W5)."""

USERS = ["a1", "a2", "a3", "a4", "a5"]
BANCOR = ["CRRTEN", "CRRFIF", "CRRHUN"]
TOKENS = ["TOKA", "TOKB"]
POOLS = [("BIP", "TOKA"), ("TOKA", "TOKB"), ("BIP", "CRRFIF"), ("BIP", "TOKB"), ("BIP", "USDTE")]
GAS = ["BIP", "BIP", "BIP", "CRRFIF", "CRRFIF", "TOKA", "TOKB", "CRRTEN", "CRRHUN"]


def amt(rnd, lo=1, hi=2000):
    r = rnd.random()
    if r < 0.08:
        return "0"
    if r < 0.16:
        return str(rnd.choice([1, 999, 10 ** 10 - 1, 10 ** 10, 10 ** 10 + 1, 10 ** 12]))
    if r < 0.22:
        return "%du" % (10 ** rnd.randint(4, 7))
    return "%du+%d" % (rnd.randint(lo, hi), rnd.randint(0, 10 ** 12))


def route(rnd):
    k = rnd.random()
    if k < 0.55:
        p = rnd.choice(POOLS)
        return list(p) if rnd.random() < 0.5 else [p[1], p[0]]
    if k < 0.85:
        return rnd.choice([["BIP", "TOKA", "TOKB"], ["TOKB", "TOKA", "BIP"], ["CRRFIF", "BIP", "TOKA"], ["TOKA", "BIP", "TOKB"], ["USDTE", "BIP", "TOKA"], ["TOKB", "BIP", "CRRFIF"]])
    return rnd.choice([["BIP", "TOKA", "TOKB", "BIP"], ["TOKA", "TOKB", "BIP", "CRRFIF"], ["BIP"], ["BIP", "BIP"], ["BIP", "CRRTEN"], ["TOKA", "BIP", "TOKA"]])


def markets(rnd, n, sid="M"):
    out = []
    for k in range(n):
        steps = []
        tid = [0]
        created = []
        orders = 4
        restarts = rnd.random() < 0.35

        def nid():
            tid[0] += 1
            return "t%d" % tid[0]
        for b in range(rnd.randint(2, 8)):
            txs = []
            for _ in range(rnd.randint(0, 4)):
                a = rnd.choice(USERS)
                r = rnd.random()
                t = {"id": nid(), "from": a, "check": True}
                if r < 0.10:
                    c = rnd.choice(BANCOR + created)
                    if rnd.random() < 0.5:
                        t.update(type="SellCoin", args={"sell": c, "buy": rnd.choice(["BIP", "BIP"] + BANCOR), "value": amt(rnd, 1, 500), "min": rnd.choice(["0", "0", "1", "100000u", "tight", "tight+1"])})
                    else:
                        t.update(type="SellCoin", args={"sell": "BIP", "buy": c, "value": amt(rnd, 1, 5000), "min": "0"})
                elif r < 0.125:
                    # conversions into a coin that is close to its maximum supply (CHEAP: 0.1 BIP per coin, 100 coins of headroom)
                    q2 = rnd.random()
                    if q2 < 0.5:
                        t.update(type="SellCoin", args={"sell": rnd.choice(["BIP", "BIP", "CRRHUN"]), "buy": "CHEAP", "value": rnd.choice(["5u", "9u", "10u", "10u+1", "11u", "50u", "200u"]), "min": "0"})
                    elif q2 < 0.8:
                        t.update(type="BuyCoin", args={"buy": "CHEAP", "sell": rnd.choice(["BIP", "CRRHUN"]), "value": rnd.choice(["50u", "100u", "100u+1", "101u", "500u"]), "max": "10000000u"})
                    else:
                        t.update(type="SellAllCoin", args={"sell": rnd.choice(["CRRHUN", "CRRFIF"]), "buy": "CHEAP", "min": "0"})
                elif r < 0.17:
                    c = rnd.choice(BANCOR + created)
                    s = rnd.choice(["BIP"] + BANCOR)
                    t.update(type="BuyCoin", args={"buy": c, "sell": s, "value": amt(rnd, 1, 300), "max": rnd.choice(["10000000u", "1", "100u", "tight", "tight-1"])})
                elif r < 0.21:
                    t.update(type="SellAllCoin", args={"sell": rnd.choice(BANCOR + ["BIP"]), "buy": rnd.choice(BANCOR + ["BIP"]), "min": "0"})
                elif r < 0.36:
                    # limits: none, absurd, and tight ones (the estimate on the current reserves, exactly / one per mille below / above)
                    t.update(type="SellSwapPool", args={"coins": route(rnd), "value": amt(rnd, 1, 3000), "min": rnd.choice(["0", "0", "1", "1000000u", "quote:1000", "tight", "quote:999", "quote:1001", "quote:990"])})
                elif r < 0.46:
                    t.update(type="BuySwapPool", args={"coins": route(rnd), "value": amt(rnd, 1, 500), "max": rnd.choice(["100000000u", "100000000u", "1", "quote:1000", "tight", "quote:1001", "quote:999", "quote:1010"])})
                elif r < 0.50:
                    t.update(type="SellAllSwapPool", args={"coins": route(rnd), "min": "0"})
                elif r < 0.64:
                    p = rnd.choice(POOLS[:4])
                    sell, buy = (p if rnd.random() < 0.5 else (p[1], p[0]))
                    # prices around the pool price, many equal prices
                    base = rnd.choice([50, 100, 100, 200])
                    ratio = rnd.choice([0.4, 0.45, 0.5, 0.5, 0.55, 1.0, 1.9, 2.0, 2.0, 2.1, 2.5])
                    t.update(type="AddLimitOrder", args={"sell": sell, "sellValue": "%du" % base, "buy": buy, "buyValue": "%d" % int(base * ratio * 10 ** 18)})
                    orders += 1
                elif r < 0.70:
                    t.update(type="RemoveLimitOrder", args={"order": rnd.randint(1, orders + 1)})
                elif r < 0.76:
                    p = rnd.choice(POOLS)
                    t.update(type="AddLiquidity", args={"c0": p[0], "c1": p[1], "v0": amt(rnd, 1, 5000), "max1": rnd.choice(["100000000u", "100000000u", "1u"])})
                elif r < 0.81:
                    p = rnd.choice(POOLS)
                    t.update(type="RemoveLiquidity", args={"c0": p[0], "c1": p[1], "liquidity": amt(rnd, 1, 3000), "min0": "0", "min1": rnd.choice(["0", "0", "1000000u"])})
                elif r < 0.84:
                    c0, c1 = rnd.sample(["BIP"] + BANCOR + TOKENS + created, 2)
                    t.update(type="CreateSwapPool", args={"c0": c0, "c1": c1, "v0": amt(rnd, 1, 1000), "v1": amt(rnd, 1, 1000)})
                elif r < 0.88:
                    sym = rnd.choice(["NEW", "NEWC", "NEWCO", "NEWCOI", "NEWCOIN", "TOKA", "CRRTEN"])
                    if rnd.random() < 0.5:
                        t.update(type="CreateCoin", args={"symbol": sym, "crr": rnd.choice([10, 50, 100, 9, 101]), "amount": "%du" % rnd.choice([1, 1000, 100000]), "reserve": "%du" % rnd.choice([9999, 10000, 50000]), "max": "%du" % rnd.choice([1000, 10 ** 9])})
                    else:
                        t.update(type="CreateToken", args={"symbol": sym, "amount": "%du" % rnd.choice([1, 1000]), "max": "%du" % rnd.choice([1000, 10 ** 9]), "mintable": rnd.random() < 0.7, "burnable": rnd.random() < 0.7})
                    if sym not in created and sym.startswith("NEW"):
                        created.append(sym)
                elif r < 0.91:
                    sym = rnd.choice(TOKENS + BANCOR + created)
                    if rnd.random() < 0.5:
                        t.update(type="RecreateToken", args={"symbol": sym, "amount": "1000u", "max": "1000000u", "mintable": True, "burnable": True})
                    else:
                        t.update(type="RecreateCoin", args={"symbol": sym, "crr": 50, "amount": "1000u", "reserve": "20000u", "max": "1000000u"})
                elif r < 0.93:
                    t.update(type="EditCoinOwner", args={"symbol": rnd.choice(TOKENS + BANCOR + created), "newOwner": rnd.choice(USERS)})
                elif r < 0.97:
                    t.update(type=rnd.choice(["MintToken", "BurnToken"]), args={"coin": rnd.choice(TOKENS + created + ["CRRTEN", "LP:BIP:TOKA"]), "value": amt(rnd, 1, 1000)})
                else:
                    t.update(type="Send", args={"coin": rnd.choice(TOKENS + BANCOR + ["BIP", "LP:BIP:TOKA"]), "to": rnd.choice(USERS), "value": amt(rnd, 1, 100)})
                if "Sell" not in t["type"] or "All" not in t["type"]:
                    t["gasCoin"] = rnd.choice(GAS)
                    coins_arg = t.get("args", {}).get("coins")
                    if coins_arg and rnd.random() < 0.5:     # the commission is paid in a coin of the route (its pool with the base coin is then used twice)
                        t["gasCoin"] = rnd.choice(coins_arg)
                if rnd.random() < 0.05:
                    t["gasPrice"] = rnd.choice([2, 10])
                txs.append(t)
            steps.append({"op": "block", "txs": txs} if txs else {"op": "block"})
            if rnd.random() < 0.2:
                steps.append({"op": "skip", "n": rnd.choice([3, 6, 12])})
            if restarts and rnd.random() < 0.3:       # the registry, the pools and the order books are read back from the disk
                steps.append({"op": "restart"})
        steps.append({"op": "skip", "n": 13})
        out.append({"id": "%s%d" % (sid, k), "world": "W5", "family": "markets", "steps": steps})
    return out


def fee_on_route(rnd, n, sid="F"):
    """trades whose commission coin is one of the route's coins (its pool with the base coin is used for the commission and for a
    hop of the same transaction), with the slippage limit set at / just below / just above the estimate on current reserves"""
    routes = [["TOKB", "TOKA", "BIP"], ["TOKA", "TOKB", "BIP"], ["CRRFIF", "BIP", "TOKA"], ["BIP", "TOKA", "TOKB"], ["TOKB", "BIP", "TOKA"],
              ["USDTE", "BIP", "TOKB"], ["TOKA", "BIP"], ["BIP", "TOKA"], ["TOKB", "BIP", "CRRFIF"], ["TOKA", "BIP", "TOKB", "TOKA"]]
    out = []
    for k in range(n):
        steps = []
        tid = 0
        for b in range(rnd.randint(1, 3)):
            txs = []
            for _ in range(rnd.randint(1, 3)):
                tid += 1
                rt = rnd.choice(routes)
                gas = rnd.choice([c for c in rt if c != "BIP"] + ["BIP"])
                t = {"id": "t%d" % tid, "from": rnd.choice(USERS), "check": True, "gasCoin": gas}
                if rnd.random() < 0.1:
                    t["gasPrice"] = rnd.choice([5, 50])
                q = rnd.random()
                if q < 0.6:
                    t.update(type="SellSwapPool", args={"coins": rt, "value": amt(rnd, 10, 3000), "min": rnd.choice(["quote:1000", "tight", "tight", "quote:999", "quote:1001", "tight+1"])})
                elif q < 0.9:
                    # "tight": the smallest maximum (largest minimum) the node's CheckTx accepts on the state the transaction meets
                    t.update(type="BuySwapPool", args={"coins": rt, "value": amt(rnd, 10, 500), "max": rnd.choice(["quote:1000", "tight", "tight", "quote:1001", "quote:999", "tight-1"])})
                else:
                    t.update(type="SellAllSwapPool", args={"coins": rt, "min": "0"})
                    t.pop("gasCoin")
                txs.append(t)
            steps.append({"op": "block", "txs": txs})
        steps.append({"op": "skip", "n": 2})
        out.append({"id": "%s%d" % (sid, k), "world": "W5", "family": "markets", "steps": steps})
    return out


def gas_tokens(rnd, n, sid="GT"):
    """transactions of the ledger and coin-registry kinds whose commission is paid in the token TOKB through its order-free pool with the base
    coin (world W5), several per block so that the pool moves between them, with gas prices and payloads"""
    out = []
    users = USERS
    for k in range(n):
        steps = []
        tid = 0
        created = []
        for b in range(rnd.randint(2, 4)):
            txs = []
            for _ in range(rnd.randint(1, 4)):
                tid += 1
                a = rnd.choice(users)
                t = {"id": "t%d" % tid, "from": a, "check": True, "gasCoin": "TOKB"}
                r = rnd.random()
                if r < 0.35:
                    t.update(type="Send", args={"coin": rnd.choice(["BIP", "TOKA", "TOKB", "TOKB"]), "to": rnd.choice(users), "value": "%du" % rnd.choice([1, 10, 1000, 399999])})
                elif r < 0.5:
                    t.update(type="Multisend", args={"list": [{"coin": rnd.choice(["BIP", "TOKB"]), "to": rnd.choice(users), "value": "%du" % rnd.randint(1, 50)} for _ in range(rnd.randint(1, 4))]})
                elif r < 0.6:
                    t.update(type="Lock", args={"coin": rnd.choice(["BIP", "TOKB"]), "value": "%du" % rnd.randint(1, 20), "due": "h+%d" % rnd.randint(1, 3)})
                elif r < 0.72:
                    sym = "GT%s%d" % ("ABCDEFGH"[k % 8], tid)
                    t.update(type="CreateToken", args={"symbol": sym, "amount": "%du" % rnd.choice([1, 1000]), "max": "%du" % rnd.choice([1000, 10 ** 9]), "mintable": rnd.random() < 0.7, "burnable": rnd.random() < 0.7})
                    created.append((sym, a))
                elif r < 0.8:
                    t.update(type="MintToken", **{"from": "a1"}, args={"coin": "TOKA", "value": "%du" % rnd.choice([1, 500, 10 ** 9])})
                elif r < 0.88:
                    t.update(type="BurnToken", args={"coin": rnd.choice(["TOKA", "TOKB"]), "value": "%du" % rnd.choice([1, 50])})
                elif r < 0.94 and created:
                    sym, own = rnd.choice(created)
                    t.update(type="EditCoinOwner", **{"from": rnd.choice([own, own, a])}, args={"symbol": sym, "newOwner": rnd.choice(users)})
                else:
                    t.update(type="Send", args={"coin": "BIP", "to": rnd.choice(users), "value": "1u"})
                if rnd.random() < 0.25:
                    t["gasPrice"] = rnd.choice([2, 3, 10])
                if rnd.random() < 0.2:
                    t["payload"] = rnd.choice([1, 10, 200])
                txs.append(t)
            steps.append({"op": "block", "txs": txs})
        steps.append({"op": "skip", "n": 2})
        out.append({"id": "%s%d" % (sid, k), "world": "W5", "family": "markets", "steps": steps})
    return out


def from_pool_model(raw):
    """behaviours of MCPools.tla (amounts in pip) -> transactions on the pair PZERO/PONE of world WP, one per block"""
    out = []
    who = {"u1": "a1", "u2": "a2"}
    big = "900000000000000000000"
    for i, ms in enumerate(raw):
        steps = []
        for k, s in enumerate(ms):
            t = {"id": "t%d" % (k + 1), "from": who[s["u"]], "check": True}
            if s["op"] == "create":
                t.update(type="CreateSwapPool", args={"c0": "PZERO", "c1": "PONE", "v0": s["a0"], "v1": s["a1"]})
            elif s["op"] == "sell":
                t.update(type="SellSwapPool", args={"coins": ["PZERO", "PONE"] if s["dir"] == 0 else ["PONE", "PZERO"], "value": s["in"], "min": "0"})
            elif s["op"] == "buy":
                t.update(type="BuySwapPool", args={"coins": ["PZERO", "PONE"] if s["dir"] == 0 else ["PONE", "PZERO"], "value": s["out"], "max": big})
            elif s["op"] == "add":
                t.update(type="AddLiquidity", args={"c0": "PZERO", "c1": "PONE", "v0": s["a0"], "max1": big})
            else:
                t.update(type="RemoveLiquidity", args={"c0": "PZERO", "c1": "PONE", "liquidity": s["liq"], "min0": "0", "min1": "0"})
            steps.append({"op": "block", "txs": [t]})
        steps.append({"op": "block"})
        out.append({"id": "PM%d" % i, "world": "WP", "family": "markets", "steps": steps})
    return out
