#!/usr/bin/env python3
"""Order-book scenarios (world W5, pool BIP/TOKA = 100000:200000 with four genesis orders, ids 1..4; orders expire at
EndBlock 306, 318, ... when older than 6 blocks). Trade sizes are found by the harness with the node's own calculator
(`fill` argument of SellSwapPool: cross n orders completely, or leave a given remainder of one order), so that the
cases the order properties talk about really happen: several orders at several prices consumed by one trade, partial
fills, remainders just below / at / above the minimum order volume, a fill and a cancellation or an expiry of the same
order in one block, commissions converted through a pool with crossing orders."""

USERS = ["a1", "a2", "a3", "a4", "a5"]
MINVOL = 10 ** 10


def order(tid, who, sell, sell_units, buy, ratio_milli):
    """`who` escrows sell_units of `sell` and wants sell_units * ratio_milli / 1000 of `buy`"""
    return {"id": tid, "type": "AddLimitOrder", "from": who, "check": True,
            "args": {"sell": sell, "sellValue": "%du" % sell_units, "buy": buy, "buyValue": "%d" % (sell_units * ratio_milli * 10 ** 15)}}


def orderbooks(rnd, n, sid="O"):
    out = []
    for k in range(n):
        steps = []
        tid = [0]

        def nid():
            tid[0] += 1
            return "t%d" % tid[0]
        kind = rnd.choice(["cross", "cross", "dust", "dust", "fill-cancel", "fill-expire", "fee", "mixed"])
        nxt = 5          # next order id (genesis has 1..4)
        mine = []        # (id, owner, side)
        # --- a book of new orders close to the pool price (2 TOKA per BIP), many equal prices
        txs = []
        for _ in range(rnd.randint(1, 5)):
            who = rnd.choice(USERS)
            if rnd.random() < 0.5:   # sells TOKA for BIP: taker sells BIP; order price (TOKA per BIP) below the pool's 2.0
                ratio = rnd.choice([505, 510, 510, 515, 520, 530])       # wants 0.505.. BIP per TOKA
                txs.append(order(nid(), who, "TOKA", rnd.choice([1, 20, 200, 2000]), "BIP", ratio))
                mine.append((nxt, who, "TOKA"))
            else:                    # sells BIP for TOKA: taker sells TOKA
                ratio = rnd.choice([2010, 2020, 2020, 2040, 2060, 2100])
                txs.append(order(nid(), who, "BIP", rnd.choice([1, 10, 100, 1000]), "TOKA", ratio))
                mine.append((nxt, who, "BIP"))
            nxt += 1
        steps.append({"op": "block", "txs": txs})
        if rnd.random() < 0.5:
            steps.append({"op": "block"})

        def sell_into(side, fill, who=None, extra_args=None):
            coins = ["BIP", "TOKA"] if side == "TOKA" else ["TOKA", "BIP"]       # side = coin the orders sell
            t = {"id": nid(), "type": "SellSwapPool", "from": who or rnd.choice(USERS), "check": True,
                 "args": {"coins": coins, "value": "%du" % rnd.randint(100, 40000), "min": "0", "fill": fill}}
            if extra_args:
                t.update(extra_args)
            return t
        side = rnd.choice(["TOKA", "BIP"])
        ids = [i for i, _, s in mine if s == side] + ([1, 2] if side == "TOKA" else [3, 4])
        if kind == "cross":
            for _ in range(rnd.randint(1, 3)):
                steps.append({"op": "block", "txs": [sell_into(side, {"cross": rnd.randint(1, 4), "extra": rnd.choice(["0", "1", "1u", "500u", "5000u"])})]})
                side = rnd.choice(["TOKA", "BIP"])
        elif kind == "dust":
            oid = rnd.choice(ids)
            leave = rnd.choice([1, MINVOL - 1, MINVOL, MINVOL + 1, MINVOL // 2, 3 * MINVOL, 10 ** 17])
            owner = {1: "a2", 2: "a3", 3: "a3", 4: "a4"}.get(oid) or [w for i, w, _ in mine if i == oid][0]
            taker = rnd.choice([u for u in USERS if u != owner] + ([owner] if rnd.random() < 0.15 else []))
            steps.append({"op": "block", "txs": [sell_into(side, {"order": oid, "leave": str(leave)}, who=taker)]})
            steps.append({"op": "block", "txs": [{"id": nid(), "type": "RemoveLimitOrder", "from": owner, "check": True, "args": {"order": oid}}]})
        elif kind == "fill-cancel":
            oid = rnd.choice(ids)
            owner = {1: "a2", 2: "a3", 3: "a3", 4: "a4"}.get(oid) or [w for i, w, _ in mine if i == oid][0]
            txs = [sell_into(side, {"order": oid, "leave": "%du" % rnd.choice([1, 5, 50])}),
                   {"id": nid(), "type": "RemoveLimitOrder", "from": owner, "check": True, "args": {"order": oid}}]
            if rnd.random() < 0.4:
                txs.append(sell_into(side, {"cross": 1, "extra": "10u"}))
            steps.append({"op": "block", "txs": txs})
        elif kind == "fill-expire":
            # genesis orders (height 300) expire at EndBlock 306: a partial fill in that very block
            done = sum(1 for s in steps if s["op"] == "block")
            steps.append({"op": "skip", "n": 5 - done})
            side = rnd.choice(["TOKA", "BIP"])
            oid = rnd.choice([1, 2] if side == "TOKA" else [3, 4])
            steps.append({"op": "block", "txs": [sell_into(side, {"order": oid, "leave": "%du" % rnd.choice([1, 30, 90])})]})
        elif kind == "fee":
            # commissions paid in TOKA are converted through the BIP/TOKA pool, whose book now has orders right at the price
            txs = []
            for _ in range(rnd.randint(2, 4)):
                a = rnd.choice(USERS)
                txs.append({"id": nid(), "type": "Send", "from": a, "gasCoin": "TOKA", "check": True, "gasPrice": rnd.choice([1, 1, 50]),
                            "args": {"coin": rnd.choice(["BIP", "TOKA"]), "to": rnd.choice(USERS), "value": "%du" % rnd.randint(1, 50)}})
            txs.insert(rnd.randint(0, len(txs)), sell_into("BIP", {"cross": 1, "extra": "0"}))
            steps.append({"op": "block", "txs": txs})
        else:
            for _ in range(rnd.randint(2, 5)):
                r = rnd.random()
                if r < 0.5:
                    t = sell_into(rnd.choice(["TOKA", "BIP"]), {"cross": rnd.randint(1, 3), "extra": rnd.choice(["0", "7u"])})
                elif r < 0.75:
                    t = {"id": nid(), "type": "BuySwapPool", "from": rnd.choice(USERS), "check": True,
                         "args": {"coins": rnd.choice([["BIP", "TOKA"], ["TOKA", "BIP"]]), "value": "%du" % rnd.randint(50, 9000), "max": "100000000u"}}
                else:
                    t = {"id": nid(), "type": "SellSwapPool", "from": rnd.choice(USERS), "check": True,
                         "args": {"coins": rnd.choice([["TOKB", "TOKA", "BIP"], ["BIP", "TOKA", "TOKB"], ["CRRFIF", "BIP", "TOKA"]]), "value": "%du" % rnd.randint(100, 20000), "min": "0"}}
                steps.append({"op": "block", "txs": [t]})
        steps.append({"op": "skip", "n": rnd.choice([2, 7, 13])})
        out.append({"id": "%s%d" % (sid, k), "world": "W5", "family": "markets", "steps": steps})
    return out
