#!/usr/bin/env python3
"""Scenarios for C25: histories of every world executed while reader goroutines serve query kinds chosen by a schedule
(behaviours of Concurrency.tla: which kinds overlap which ABCI phase), next to a twin that executes alone."""
import copy

import gens
import gens_markets
import gens_orders
import gens_staking

KINDS = ["balance", "candidates", "pools", "route", "estimate", "orders", "frozen", "export", "api"]
PHASES = ["begin", "deliver", "end", "commit", "between"]


def schedules_from_model(raw):
    out = []
    for ms in raw:
        sch = {}
        for e in ms:
            if e["kinds"]:
                sch[e["phase"]] = sorted(e["kinds"])
        if sch:
            out.append(sch)
    return out


def concurrency(rnd, n_each, schedules, sid="K"):
    hist = (gens_markets.markets(rnd, n_each, sid=sid + "M") + gens_orders.orderbooks(rnd, n_each, sid=sid + "O")
            + gens_staking.staking(rnd, n_each // 2 + 1, sid=sid + "S") + gens.ledger(rnd, n_each // 2 + 1, sid=sid + "L"))
    out = []
    for h in hist:
        s = copy.deepcopy(h)
        s["family"] = "concurrency"
        s["twin"] = True
        s["lean"] = True
        s["readers"] = rnd.choice([2, 4, 8])
        # blocks are produced within milliseconds here: with the worlds' three kept versions a query that spans a few commits would
        # read a pruned tree version, which a real chain (seconds per block, 120 kept versions) does not do
        s["keepStates"] = 100000
        r = rnd.random()
        if r < 0.5 and schedules:
            s["schedule"] = rnd.choice(schedules)
        elif r < 0.8:
            s["schedule"] = {p: KINDS for p in PHASES}                     # everything overlaps everything
        else:
            ks = rnd.sample(KINDS, rnd.randint(1, 3))
            s["schedule"] = {p: ks for p in rnd.sample(PHASES, rnd.randint(1, 4))}
        for st in s["steps"]:                                               # restarts are not part of this family
            if st.get("op") == "restart":
                st["op"] = "block"
        out.append(s)
    return out
