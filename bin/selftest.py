#!/usr/bin/env python3
"""Self-tests of the machinery: `bigint` cross-checks the Java override against the pure TLA+ definitions; `binding` shows that the
trace specification is bound to the recorded execution: an untouched trace of the real node is accepted, the same trace with one
recorded field altered, or with one recorded step removed, is rejected."""
import os, random, subprocess, sys, shutil
ROOT = os.path.dirname(os.path.dirname(os.path.abspath(__file__)))
SPEC = os.path.join(ROOT, "spec")
WORK = os.environ.get("VERIF_TMP", os.path.join(ROOT, ".work"))

def bigint():
    rnd = random.Random(7)
    ops = []
    for _ in range(300):
        a = rnd.choice([0, 1, 9, 10, 99, rnd.randrange(10 ** rnd.randint(1, 40))])
        b = rnd.choice([0, 1, 7, rnd.randrange(10 ** rnd.randint(1, 40))])
        ops.append((a, b))
    d = os.path.join(WORK, "xcheck")
    shutil.rmtree(d, ignore_errors=True)
    os.makedirs(d)
    pairs = ", ".join('<<"%d", "%d">>' % (a, b) for a, b in ops)
    open(os.path.join(d, "XCheck.tla"), "w").write("""---- MODULE XCheck ----
EXTENDS BigInt, Integers, Sequences, TLC
Pairs == <<%s>>
Max(a, b) == IF BigCmp(a, b) >= 0 THEN a ELSE b
Min(a, b) == IF BigCmp(a, b) >= 0 THEN b ELSE a
OK(p) == /\\ BigDigits(BigAdd(p[1], p[2])) = PureAdd(BigDigits(p[1]), BigDigits(p[2]))
         /\\ BigDigits(BigMul(p[1], p[2])) = PureMul(BigDigits(p[1]), BigDigits(p[2]))
         /\\ BigDigits(BigSub(Max(p[1], p[2]), Min(p[1], p[2]))) = PureSub(BigDigits(Max(p[1], p[2])), BigDigits(Min(p[1], p[2])))
         /\\ BigCmp(p[1], p[2]) = PureCmp(BigDigits(p[1]), BigDigits(p[2]))
         /\\ (p[2] # "0" => BigAdd(BigMul(BigDiv(p[1], p[2]), p[2]), BigMod(p[1], p[2])) = p[1])
         /\\ (p[2] # "0" => BigCmp(BigMod(p[1], p[2]), p[2]) < 0)
         /\\ BigCmp(BigMul(BigSqrt(p[1]), BigSqrt(p[1])), p[1]) <= 0
         /\\ BigCmp(BigMul(BigAdd(BigSqrt(p[1]), "1"), BigAdd(BigSqrt(p[1]), "1")), p[1]) > 0
         /\\ BigSumSeq(<<p[1], p[2], p[1]>>) = BigAdd(BigAdd(p[1], p[2]), p[1])
ASSUME \\A i \\in 1..Len(Pairs) : OK(Pairs[i]) \\/ Print(<<"MISMATCH", Pairs[i]>>, FALSE)
ASSUME PrintT("XCHECK-OK")
====
""" % pairs)
    open(os.path.join(d, "XCheck.cfg"), "w").write("")
    cp = "/opt/veriftools/tla/tla2tools.jar:/opt/veriftools/tla/CommunityModules-deps.jar:%s/lib/big" % SPEC
    p = subprocess.run(["java", "-XX:+UseParallelGC", "-Xss64m", "-DTLA-Library=%s/lib/big" % SPEC, "-cp", cp, "tlc2.TLC", "-metadir", os.path.join(d, "meta"), "XCheck.tla"],
                       cwd=d, stdout=subprocess.PIPE, stderr=subprocess.STDOUT, timeout=600)
    out = p.stdout.decode()
    shutil.rmtree(d, ignore_errors=True)
    if "XCHECK-OK" not in out or "MISMATCH" in out or "Loading BigAdd operator override" not in out:
        print(out[-3000:])
        print("bigint cross-check FAILED")
        return 1
    print("bigint cross-check ok (300 operand pairs)")
    return 0

def binding():
    import json
    sys.path.insert(0, os.path.join(ROOT, "bin"))
    import vlib
    d = os.path.join(WORK, "binding")
    shutil.rmtree(d, ignore_errors=True)
    os.makedirs(d)
    scn = {"id": "B1", "world": "W2u", "family": "staking", "steps": [
        {"op": "block", "txs": [{"id": "t1", "type": "Unbond", "from": "o1", "check": True, "args": {"pub": "v1", "coin": "BIP", "value": "100u"}},
                                {"id": "t2", "type": "Delegate", "from": "a1", "check": True, "args": {"pub": "v1", "coin": "BIP", "value": "30u"}}]},
        {"op": "block", "txs": [{"id": "t3", "type": "Send", "from": "a2", "check": True, "args": {"coin": "BIP", "to": "a3", "value": "5u"}}]},
        {"op": "block", "evidence": ["v4"]}, {"op": "skip", "n": 4}]}
    open(os.path.join(d, "scn.ndjson"), "w").write(json.dumps(scn) + "\n")
    trace = os.path.join(d, "trace.ndjson")
    subprocess.run([os.path.join(WORK, "bin/driver"), "-scenarios", os.path.join(d, "scn.ndjson"), "-out", trace, "-work", os.path.join(d, "db")],
                   check=True, stdout=subprocess.DEVNULL, stderr=subprocess.DEVNULL)
    recs = [json.loads(l) for l in open(trace)]

    def judge(name, rs):
        p = os.path.join(d, name + ".ndjson")
        with open(p, "w") as f:
            for r in rs:
                f.write(json.dumps(r) + "\n")
        res = vlib.run_tlc_trace(p, os.path.join(d, "meta-" + name))
        bad = [(v.get("prop"), v.get("clause")) for v in res["viol"] + res["drift"] if (v.get("prop"), v.get("clause")) != ("C26", "ChargedOnce")]
        return res["ok"], bad

    ok, bad = judge("intact", recs)
    print("intact trace: accepted=%s, failed clauses=%s" % (ok, bad))
    good = ok and not bad
    # 1. one recorded balance altered by one pip in the state after a delivery
    i = next(k for k, r in enumerate(recs) if r.get("kind") == "DeliverTx" and r["tx"]["id"] == "t3")
    alt = json.loads(json.dumps(recs))
    alt[i]["st"]["bal"]["a3"]["0"] = str(int(alt[i]["st"]["bal"]["a3"]["0"]) + 1)
    ok1, bad1 = judge("altered-balance", alt)
    print("balance of a3 altered by 1 pip after t3: failed clauses=%s" % sorted(set(bad1)))
    # 2. one recorded response code altered
    alt = json.loads(json.dumps(recs))
    alt[i]["resp"]["code"] = 107
    ok2, bad2 = judge("altered-code", alt)
    print("response code of t3 altered: failed clauses=%s" % sorted(set(bad2)))
    # 3. one recorded step removed (as if a hook were missing): the EndBlock of the second block
    j = next(k for k, r in enumerate(recs) if r.get("kind") == "EndBlock" and k > i)
    ok3, bad3 = judge("removed-step", recs[:j] + recs[j + 1:])
    print("EndBlock record removed: failed clauses=%s" % sorted(set(bad3)))
    shutil.rmtree(d, ignore_errors=True)
    if good and bad1 and bad2 and bad3:
        print("BINDING-OK")
        return 0
    print("BINDING-FAILED")
    return 1


if __name__ == "__main__":
    sys.exit({"bigint": bigint, "binding": binding}[sys.argv[1]]())
