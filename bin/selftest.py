#!/usr/bin/env python3
"""Self-tests of the machinery: `bigint` cross-checks the Java override against the pure TLA+ definitions."""
import os, random, subprocess, sys, shutil
ROOT = os.path.dirname(os.path.dirname(os.path.abspath(__file__)))
SPEC = os.path.join(ROOT, "spec")
WORK = os.environ.get("VERIF_TMP", os.path.join(ROOT, ".work"))

def bigint():
    rnd = random.Random(7)
    ops = []
    for _ in range(300):
        a = rnd.choice([0, 1, 9, 10, 99, rnd.randrange(10 ** rnd.randint(1, 40))])
        b = rnd.choice([0, 1, 7, rnd.randrange(10 ** rnd.randint(1, 40))])
        ops.append((a, b))
    d = os.path.join(WORK, "xcheck")
    shutil.rmtree(d, ignore_errors=True)
    os.makedirs(d)
    pairs = ", ".join('<<"%d", "%d">>' % (a, b) for a, b in ops)
    open(os.path.join(d, "XCheck.tla"), "w").write("""---- MODULE XCheck ----
EXTENDS BigInt, Integers, Sequences, TLC
Pairs == <<%s>>
Max(a, b) == IF BigCmp(a, b) >= 0 THEN a ELSE b
Min(a, b) == IF BigCmp(a, b) >= 0 THEN b ELSE a
OK(p) == /\\ BigDigits(BigAdd(p[1], p[2])) = PureAdd(BigDigits(p[1]), BigDigits(p[2]))
         /\\ BigDigits(BigMul(p[1], p[2])) = PureMul(BigDigits(p[1]), BigDigits(p[2]))
         /\\ BigDigits(BigSub(Max(p[1], p[2]), Min(p[1], p[2]))) = PureSub(BigDigits(Max(p[1], p[2])), BigDigits(Min(p[1], p[2])))
         /\\ BigCmp(p[1], p[2]) = PureCmp(BigDigits(p[1]), BigDigits(p[2]))
         /\\ (p[2] # "0" => BigAdd(BigMul(BigDiv(p[1], p[2]), p[2]), BigMod(p[1], p[2])) = p[1])
         /\\ (p[2] # "0" => BigCmp(BigMod(p[1], p[2]), p[2]) < 0)
         /\\ BigCmp(BigMul(BigSqrt(p[1]), BigSqrt(p[1])), p[1]) <= 0
         /\\ BigCmp(BigMul(BigAdd(BigSqrt(p[1]), "1"), BigAdd(BigSqrt(p[1]), "1")), p[1]) > 0
         /\\ BigSumSeq(<<p[1], p[2], p[1]>>) = BigAdd(BigAdd(p[1], p[2]), p[1])
ASSUME \\A i \\in 1..Len(Pairs) : OK(Pairs[i]) \\/ Print(<<"MISMATCH", Pairs[i]>>, FALSE)
ASSUME PrintT("XCHECK-OK")
====
""" % pairs)
    open(os.path.join(d, "XCheck.cfg"), "w").write("")
    cp = "/opt/veriftools/tla/tla2tools.jar:/opt/veriftools/tla/CommunityModules-deps.jar:%s/lib/big" % SPEC
    p = subprocess.run(["java", "-XX:+UseParallelGC", "-Xss64m", "-DTLA-Library=%s/lib/big" % SPEC, "-cp", cp, "tlc2.TLC", "-metadir", os.path.join(d, "meta"), "XCheck.tla"],
                       cwd=d, stdout=subprocess.PIPE, stderr=subprocess.STDOUT, timeout=600)
    out = p.stdout.decode()
    shutil.rmtree(d, ignore_errors=True)
    if "XCHECK-OK" not in out or "MISMATCH" in out or "Loading BigAdd operator override" not in out:
        print(out[-3000:])
        print("bigint cross-check FAILED")
        return 1
    print("bigint cross-check ok (300 operand pairs)")
    return 0

if __name__ == "__main__":
    sys.exit({"bigint": bigint}[sys.argv[1]]())
