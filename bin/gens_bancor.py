#!/usr/bin/env python3
"""Inputs for the bancor functions (C12): every reserve ratio 10..100, magnitude grid for supply / reserve, amounts at the
boundaries (1, tiny, half, supply-1, supply, reserve-1, ...) and seeded random ones, in ascending order per group."""


def groups(rnd, n, crrs=None):
    out = []
    for _ in range(n):
        crr = rnd.choice(crrs) if crrs else rnd.randint(10, 100)
        if rnd.random() < 0.3:
            crr = rnd.choice([10, 11, 25, 33, 50, 75, 90, 99, 100])
        S = rnd.choice([10 ** rnd.randint(18, 33), rnd.randint(10 ** 18, 10 ** 30), rnd.randint(1, 10 ** 6) * 10 ** 18])
        # reserves stay below the emission cap (10^28 pip: no more base coin can exist), supplies below the maximum coin supply (10^33)
        R = rnd.choice([10 ** rnd.randint(22, 28), rnd.randint(10 ** 22, 10 ** 28), rnd.randint(10000, 10 ** 7) * 10 ** 18])
        am = set()
        for _k in range(rnd.randint(3, 8)):
            r = rnd.random()
            if r < 0.25:
                am.add(rnd.choice([1, 2, 10, 1000, 10 ** 9, 10 ** 10, 10 ** 18]))
            elif r < 0.5:
                am.add(rnd.choice([S - 1, S, S // 2, S // 3, R - 1, R, R + 1, R // 2, R // 1000, S // 10 ** 6 + 1, R - R // 10 ** 9]))
            elif r < 0.8:
                am.add(rnd.randint(1, max(S, R)))
            else:
                base = rnd.randint(1, max(S, R))
                am.add(base)
                am.add(base + rnd.choice([1, 2, 1000]))          # neighbours: monotonicity at a one-unit step
        am = sorted(a for a in am if a > 0)
        out.append({"supply": str(S), "reserve": str(R), "crr": crr, "amounts": [str(a) for a in am]})
    return out


def bancor(rnd, n, per=6):
    scs = []
    for k in range(n):
        scs.append({"id": "B%d" % k, "family": "bancor", "groups": groups(rnd, per)})
    # every reserve ratio once with fixed round magnitudes
    allcrr = []
    for crr in range(10, 101):
        S, R = 10 ** 24, 5 * 10 ** 23
        allcrr.append({"supply": str(S), "reserve": str(R), "crr": crr, "amounts": [str(a) for a in [1, 10 ** 18, 10 ** 21, S // 2, R - 1, S - 1, S]]})
    scs.append({"id": "Ball", "family": "bancor", "groups": allcrr})
    return scs
