#!/usr/bin/env python3
"""Per-family corpus construction: TLC-generated scenarios (spec/gen/*.cfg), seeded random histories, regression scenarios."""
import json
import os
import random

import gens
import gens_staking
import gens_markets
import gens_more
import gens_sync
import gens_rewards
import gens_orders
import gens_events
import gens_bancor
import gens_codec
import gens_conc
import vlib

# model-checking configuration per family and tier: (module, cfg)
MC = {
    "ledger": {"quick": ("MCLedger", "mc/MCLedger_q.cfg"),
               # thorough: the exhaustive configuration, then every menu together (9 transactions in 4 blocks) drawn at random for five minutes
               "thorough": [("MCLedger", "mc/MCLedger.cfg"), ("MCLedger", "mc/MCLedger_sim.cfg", {"simulate": 300})]},
    "durability": {"quick": ("Durability", "mc/MCDurability_C09.cfg"), "thorough": ("Durability", "mc/MCDurability_C09_t.cfg")},
    "crash": {"quick": ("Durability", "mc/MCDurability_C10.cfg"), "thorough": ("Durability", "mc/MCDurability_C10.cfg")},
}

LABELS = {"events": "events:set:0", "tree": "state:batch", "hash": "app:set:hash", "height": "app:set:height", "vals": "app:set:validators",
          "times": "app:set:blockDelta", "versions": "app:set:versions", "emission": "app:set:emission", "price": "app:set:price"}


TOKEN_REACH = ["CreateOk", "CreateDuplicate", "CreateBadSupply", "RecreateOk", "RecreateByOther", "RecreateUnknown", "OwnerChanged", "OwnerChangeByOther",
               "RecreateByNewOwner", "MintOk", "MintOverMax", "MintByOther", "MintArchivedVersion", "MintNotMintable", "BurnOk", "BurnByHolder", "BurnBelowMinimum",
               "BurnNotBurnable", "CoinCreated", "CoinReserveTooLow", "CoinWrongCrr", "CoinCreatorTooPoor", "CoinRecreated", "CoinRecreateByOther"]


def regress(family):
    out = []
    reg = os.path.join(vlib.ROOT, "scenarios", "%s_regress.ndjson" % family)
    if os.path.exists(reg):
        for i, line in enumerate(open(reg)):
            if line.strip():
                s = json.loads(line)
                s["id"] = "reg%d:%s" % (i, s.get("id", ""))
                out.append(s)
    return out


def sample(rnd, xs, n):
    return xs if not n or len(xs) <= n else rnd.sample(xs, n)


def ledger(tier, seed):
    rnd = random.Random("%d/ledger" % seed)
    scs = []
    plan = {"quick": [("W1u", 400)], "thorough": [("W1u", 0), ("W1s", 3000)]}[tier]
    for world, n in plan:
        for s in sample(rnd, vlib.tlc_generate("MCLedger", "gen/MCLedgerGen.cfg", "W1u", "ledger"), n):
            s = dict(s, world=world, id="%s:%s" % (world, s["id"]))
            scs.append(s)
    scs += gens.ledger(rnd, {"quick": 120, "thorough": 2500}[tier])
    scs += gens.multisig_wide(rnd, {"quick": 12, "thorough": 120}[tier])
    scs += gens.check_boundaries()
    # behaviours of the coin-registry menu of the ledger model (tokens: create, recreate, owner change, mint, burn)
    tokens = [dict(s, id="TK" + s["id"]) for s in vlib.tlc_generate("MCLedger", "gen/MCLedgerGen_tokens.cfg", "W1u", "ledger")]
    scs += sample(rnd, tokens, {"quick": 150, "thorough": 3000}[tier])
    again = [dict(s, id="RC" + s["id"]) for s in vlib.tlc_generate("MCLedger", "gen/MCLedgerGen_recreate.cfg", "W1u", "ledger")]
    scs += sample(rnd, again, {"quick": 60, "thorough": 2000}[tier])        # one ticker recreated up to four times
    return scs + regress("ledger")


def durability_steps(model_steps):
    """Durability.tla scenario (block kinds, crash labels, restarts) -> harness steps in world WD (initial height 201, period 2)."""
    steps = []
    h = 200
    for s in model_steps:
        if s["op"] == "restart":
            steps.append({"op": "restart"})
            continue
        if s["op"] == "statesync":
            steps.append({"op": "statesync", "back": s.get("back", 0)})
            continue
        kind = s["kind"]
        pre = None
        if kind == "version":
            # the votes must be in an earlier block
            votes = [{"type": "VoteUpdate", "from": "o1", "args": {"pub": "v1", "version": "v330", "height": "h+1"}},
                     {"type": "VoteUpdate", "from": "o2", "args": {"pub": "v2", "version": "v330", "height": "h+1"}}]
            pre = {"op": "block", "txs": votes}
        if kind == "price" and (h + 1 + (1 if pre else 0)) % 2 == 0:
            steps.append({"op": "block"})
            h += 1
        if kind == "vals" and (h + 1 + (1 if pre else 0)) % 2 == 1:
            steps.append({"op": "block"})
            h += 1
        if pre:
            steps.append(pre)
            h += 1
        st = {"op": "block"}
        if kind == "price":
            st["hour"], st["dt"] = 13, 86400
        if "after" in s:
            st["after"] = LABELS[s["after"]]
        if s.get("lateSnap"):
            st["lateSnap"] = True
        steps.append(st)
        h += 1
    return steps + [{"op": "block"}, {"op": "block"}]


def tlc_durability(cfg, family):
    raw = vlib.tlc_generate_raw("Durability", cfg)
    out = []
    for i, ms in enumerate(raw):
        out.append({"id": "%s-%d" % (family, i), "world": "WD", "family": family, "twin": True, "steps": durability_steps(ms)})
    return out


def durability(tier, seed):
    rnd = random.Random("%d/durability" % seed)
    scs = sample(rnd, tlc_durability("gen/MCDurabilityGen_C09.cfg", "durability"), {"quick": 150, "thorough": 0}[tier])
    hist = gens.durability_histories(rnd, {"quick": 12, "thorough": 150}[tier])
    scs += gens.with_restarts(rnd, hist, {"quick": 2, "thorough": 4}[tier])
    scs += gens_more.absence_wrap(rnd, {"quick": 8, "thorough": 80}[tier])
    return scs + regress("durability")


def crash(tier, seed):
    """phase 1 of the crash family: TLC-generated crash points; the (history x block x k) enumeration is added by crash_enumeration"""
    rnd = random.Random("%d/crash" % seed)
    return sample(rnd, tlc_durability("gen/MCDurabilityGen_C10.cfg", "crash"), {"quick": 120, "thorough": 0}[tier]) + regress("crash")


def crash_enumeration(tier, seed):
    """every write of every commit of the chosen histories: needs a reference run to learn the writes"""
    rnd = random.Random("%d/crashenum" % seed)
    hist = gens.durability_histories(rnd, {"quick": 3, "thorough": 30}[tier], sid="E")
    for h in hist:
        h["twin"] = False
        h["lean"] = True
    ref = vlib.run_driver_only(hist, "crashref")
    writes = {}
    for rec in ref:
        if rec["kind"] == "Commit":
            writes.setdefault(rec["sc"], []).append(rec.get("writes") or [])
    out = []
    for h in hist:
        for bi, ws in enumerate(writes.get(h["id"], [])):
            if bi == 0:
                continue  # Tendermint itself cannot resume a chain whose first block never committed (the application reports initialHeight-1 after InitChain)
            for k in range(len(ws)):
                # a crash point is named by (label, occurrence): the order of the events-store writes varies from run to run
                out.append(gens.with_crash(h, bi, k + 1, ws[k], ws[:k + 1].count(ws[k])))
    return out


def staking(tier, seed):
    rnd = random.Random("%d/staking" % seed)
    # behaviours of the staking model (MCStaking, real periods): two transactions and evidence in three blocks; exits followed by a jump of
    # exactly / one short of the move and unbond periods
    model = vlib.tlc_generate("MCStaking", "gen/MCStakingGen.cfg", "W2u", "staking")
    jumps = vlib.tlc_generate("MCStaking", "gen/MCStakingGen_skip.cfg", "W2u", "staking")
    jumps = [dict(s, id="J" + s["id"]) for s in jumps]
    # candidates declared and edited, keys changed, halts and version updates voted for the third block
    gov = [dict(s, id="G" + s["id"]) for s in vlib.tlc_generate("MCStaking", "gen/MCStakingGen_gov.cfg", "W2u", "staking")]
    return (sample(rnd, model, {"quick": 150, "thorough": 4000}[tier]) + sample(rnd, jumps, {"quick": 50, "thorough": 1500}[tier])
            + sample(rnd, gov, {"quick": 80, "thorough": 2000}[tier])
            + gens_staking.targeted() + gens_staking.staking(rnd, {"quick": 60, "thorough": 1500}[tier])
            + gens_staking.crowd(rnd, {"quick": 6, "thorough": 60}[tier]) + regress("staking"))


STAKING_REACH_EXITS = ["DelegateOk", "DelegateFromWaitList", "DelegateTooBig", "DelegateNoCandidate", "StakeNotPositive", "UnbondOk", "UnbondFromWaitList",
                       "UnbondWholeStake", "StakeNotFound", "InsufficientStake", "InsufficientWaitList", "MoveOk", "MoveFromWaitList", "MoveEqualKeys", "LockStakeOk", "LockStakeNotYet",
                       "UnbondBlocked", "SwitchOffByControl", "SwitchByStranger", "SwitchOnOk", "FundsMature", "UnbondedFundsReturn", "MoveArrives", "Payout",
                       "UpdateBetweenPayouts", "ValidatorLeaves", "ValidatorLeavesWithAccum", "ValidatorJoins", "UpdatesMerged", "EmptiedStakeGone"]
STAKING_REACH_PUNISH = ["TooAbsent", "JailedForAbsence", "SwitchedOffInGrace", "SwitchOnJailed", "SwitchOnAfterJail", "Evidence", "EvidenceTwice",
                        "EvidenceWithUnbondingFunds", "EvidenceWithFundsDueNow", "EvidenceAgainstOffline", "EvidenceAndAbsenceTogether", "Payout", "ValidatorLeaves"]
STAKING_REACH_VOTES = ["VoteOk", "VoteExpired", "VoteTwice", "VoteByStranger", "Halted", "HaltVotesNotEnough", "HaltExactlyTwoThirds", "UpdateApplied",
                       "UpdateVotesNotEnough", "UpdateCompeting", "VotesForgotten"]
STAKING_REACH_CANDS = ["DeclareOk", "DeclareExisting", "DeclareWrongCommission", "EditCandidateOk", "EditByNewOwner", "EditByStranger", "CommissionOk", "CommissionTooFar",
                       "CommissionTooSoon", "CommissionByControl", "NewCandidateIsValidator", "KeyChanged", "KeyChangedTwice", "KeyTaken", "KeyBlocked",
                       "KeyChangeByStranger", "ValidatorFollowsKey"]
# unbounded lemmas about the payout split, the punishment cut and the accrual (Apalache, spec/ind/RewardsInd.tla)
REWARD_LEMMAS = [("NextPayout", "NeverOverPaid"), ("NextPayout", "LargerStakeGetsNoLess"), ("NextCut", "CutAndKeepAddUp"), ("NextAccrue", "AccrualWithinShare")]
MC["staking"] = {"quick": [("MCStaking", "mc/MCStaking_exits.cfg", {"reach": STAKING_REACH_EXITS}), ("MCStaking", "mc/MCStaking_punish.cfg", {"reach": STAKING_REACH_PUNISH}),
                           ("MCStaking", "mc/MCStaking_votes.cfg", {"reach": STAKING_REACH_VOTES}),
                           ("MCStaking", "mc/MCStaking_cands.cfg", {"reach": STAKING_REACH_CANDS}),
                           ("RewardsInd", "ind/RewardsInd.tla", {"apalache": REWARD_LEMMAS})],
                 "thorough": [("MCStaking", "mc/MCStaking_exits_t.cfg", {"reach": STAKING_REACH_EXITS}), ("MCStaking", "mc/MCStaking_punish_t.cfg", {"reach": STAKING_REACH_PUNISH}),
                              ("MCStaking", "mc/MCStaking_votes.cfg", {"reach": STAKING_REACH_VOTES}),
                              ("MCStaking", "mc/MCStaking_cands.cfg", {"reach": STAKING_REACH_CANDS}),
                              # all menus together, 12 blocks, 8 transactions: far too large to enumerate, drawn at random for ten minutes
                              ("MCStaking", "mc/MCStaking_sim.cfg", {"simulate": 600}),
                              ("RewardsInd", "ind/RewardsInd.tla", {"apalache": REWARD_LEMMAS})]}
def markets(tier, seed):
    rnd = random.Random("%d/markets" % seed)
    pool_model = gens_markets.from_pool_model(vlib.tlc_generate_raw("MCPools", "gen/MCPoolsGen.cfg", big=True))
    return (sample(rnd, pool_model, {"quick": 150, "thorough": 0}[tier]) + gens_markets.markets(rnd, {"quick": 80, "thorough": 3000}[tier]) + gens_orders.orderbooks(rnd, {"quick": 60, "thorough": 2000}[tier])
            + gens_markets.fee_on_route(rnd, {"quick": 40, "thorough": 1000}[tier])
            + gens_markets.gas_tokens(rnd, {"quick": 40, "thorough": 800}[tier])
            + regress("markets"))


# unbounded lemmas about one trade / one liquidity operation, for any reserves and amounts (Apalache, spec/ind/PoolsInd.tla)
POOL_LEMMAS = [("NextSell", "TradeKeepsProduct"), ("NextBuy", "TradeKeepsProduct"), ("NextBuy", "BuyPaysBurn"), ("NextRemove", "RemoveAtMostShare"), ("NextAdd", "AddAtMostShare")]
MC["markets"] = {"quick": [("MCPools", "mc/MCPools_q.cfg"), ("PoolsInd", "ind/PoolsInd.tla", {"apalache": POOL_LEMMAS, "equiv": "PoolOpsEq"})],
                 "thorough": [("MCPools", "mc/MCPools.cfg"), ("PoolsInd", "ind/PoolsInd.tla", {"apalache": POOL_LEMMAS, "equiv": "PoolOpsEq"})]}


def statesync(tier, seed):
    rnd = random.Random("%d/statesync" % seed)
    raw = vlib.tlc_generate_raw("Durability", "gen/MCDurabilityGen_C29.cfg")
    scs = sample(rnd, gens_sync.statesync_from_model(raw), {"quick": 60, "thorough": 500}[tier])
    scs += gens_sync.statesync(rnd, {"quick": 12, "thorough": 60}[tier])
    return scs + regress("statesync")


def export(tier, seed):
    rnd = random.Random("%d/export" % seed)
    model = vlib.tlc_generate("MCLedger", "gen/MCLedgerGen.cfg", "W1u", "ledger")
    return (gens_sync.export_import(rnd, {"quick": 20, "thorough": 400}[tier])
            + gens_sync.replay_after_import(rnd, model, {"quick": 40, "thorough": 1500}[tier]) + regress("export"))


def determinism(tier, seed):
    rnd = random.Random("%d/determinism" % seed)
    return gens_sync.determinism(rnd, {"quick": 20, "thorough": 400}[tier]) + regress("determinism")


def rewards(tier, seed):
    rnd = random.Random("%d/rewards" % seed)
    raw = vlib.tlc_generate_raw("MCRewards", "gen/MCRewardsGen.cfg")
    scs = sample(rnd, gens_rewards.from_model(raw), {"quick": 150, "thorough": 0}[tier])
    scs += gens_rewards.rewards(rnd, {"quick": 40, "thorough": 1200}[tier])
    return scs + gens_rewards.window_edges() + regress("rewards")


def events(tier, seed):
    rnd = random.Random("%d/events" % seed)
    raw = vlib.tlc_generate_raw("EventsStore", "gen/MCEventsGen.cfg")
    scs = sample(rnd, gens_events.from_model(raw), {"quick": 400, "thorough": 0}[tier])
    scs += gens_events.events(rnd, {"quick": 60, "thorough": 1500}[tier])
    scs += [gens_events.many_keys(n) for n in ({"quick": [300, 65536], "thorough": [300, 65533, 65534, 65535, 65536, 70000]}[tier])]
    return scs + regress("events")


def bancor(tier, seed):
    rnd = random.Random("%d/bancor" % seed)
    return gens_bancor.bancor(rnd, {"quick": 64, "thorough": 3000}[tier])


def codec(tier, seed):
    rnd = random.Random("%d/codec" % seed)
    return gens_codec.codec(rnd, {"quick": 40, "thorough": 1000}[tier]) + gens_codec.check_variants() + regress("codec")


def concurrency(tier, seed):
    rnd = random.Random("%d/concurrency" % seed)
    raw = vlib.tlc_generate_raw("Concurrency", "gen/MCConcurrencyGen.cfg")
    sch = gens_conc.schedules_from_model(raw)
    return gens_conc.concurrency(rnd, {"quick": 16, "thorough": 400}[tier], sample(rnd, sch, 200)) + regress("concurrency")


MC["concurrency"] = {"quick": ("Concurrency", "mc/MCConcurrency.cfg"), "thorough": ("Concurrency", "mc/MCConcurrency.cfg")}
MC["codec"] = None
MC["bancor"] = None
MC["events"] = {"quick": ("EventsStore", "mc/MCEvents_q.cfg"), "thorough": ("EventsStore", "mc/MCEvents.cfg")}
MC["rewards"] = {"quick": ("MCRewards", "mc/MCRewards.cfg"), "thorough": ("MCRewards", "mc/MCRewards_t.cfg")}
MC["statesync"] = {"quick": ("Durability", "mc/MCDurability_C29.cfg"), "thorough": ("Durability", "mc/MCDurability_C29_t.cfg")}
MC["export"] = None
MC["determinism"] = None
BUILDERS = {"concurrency": concurrency, "codec": codec, "bancor": bancor, "events": events, "rewards": rewards, "statesync": statesync, "export": export, "determinism": determinism,"markets": markets, "staking": staking, "ledger": ledger, "durability": durability, "crash": lambda tier, seed: crash(tier, seed) + crash_enumeration(tier, seed)}
RANDOMISED = True
