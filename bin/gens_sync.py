#!/usr/bin/env python3
"""Scenario families about several instances: state sync (C29), export/import round trips (C11), determinism (C08).
They reuse the histories of the other families and insert the step that creates the second instance."""
import copy
import random

import gens
import gens_markets
import gens_staking


def _blocks(steps):
    return [i for i, s in enumerate(steps) if s.get("op", "block") in ("block", "skip")]


def _strip(s, family, **extra):
    s = copy.deepcopy(s)
    s["family"] = family
    for k in ("twin", "lean", "snap", "det"):
        s.pop(k, None)
    s.update(extra)
    return s


def mixed_histories(rnd, n_each, sid):
    """histories of every world: ledger (W1), staking (W2), markets (W5), durability (WD)"""
    out = []
    out += gens.ledger(rnd, n_each, sid=sid + "L")
    out += gens_staking.staking(rnd, n_each, sid=sid + "S")
    out += gens_markets.markets(rnd, n_each, sid=sid + "M")
    out += gens.durability_histories(rnd, n_each, sid=sid + "D")
    return out


def insert_at(rnd, s, op, lo=1):
    """inserts step `op` after a random block (at least `lo` blocks before it), keeps at least three blocks after it"""
    steps = s["steps"]
    idx = _blocks(steps)
    if len(idx) < lo:
        pos = len(steps)
    else:
        pos = rnd.choice(idx[lo - 1:]) + 1
    new = steps[:pos] + [dict(o) for o in op] + steps[pos:]
    tail = [{"op": "block"}, {"op": "block"}, {"op": "block"}]
    s["steps"] = new + tail
    return s


def statesync_from_model(raw):
    """Durability.tla behaviours with Sync / Restart -> harness steps in world WD"""
    import families
    out = []
    for i, ms in enumerate(raw):
        if any(s["op"] == "statesync" for s in ms):
            out.append({"id": "ssm-%d" % i, "world": "WD", "family": "statesync", "twin": True, "snap": 1, "steps": families.durability_steps(ms)})
    return out


def statesync(rnd, n_each):
    out = []
    for h in mixed_histories(rnd, n_each, "Y"):
        s = _strip(h, "statesync", twin=True, snap=1)
        r = rnd.random()
        op = [{"op": "statesync"}]
        if r < 0.2:
            op = [{"op": "restart"}, {"op": "statesync"}]          # the producer was restarted before
        elif r < 0.4:
            op = [{"op": "statesync"}, {"op": "restart"}]          # the restored node is restarted before its first block
        elif r < 0.5:
            op = [{"op": "statesync"}, {"op": "block"}, {"op": "restart"}]
        elif r < 0.6:
            op = [{"op": "statesync"}, {"op": "block"}, {"op": "statesync"}]   # a restored node produces the next snapshot
        if rnd.random() < 0.3:
            # the snapshot of the block before the sync starts late (while the next block commits); the sync then uses it
            op = [{"op": "block", "lateSnap": True}, {"op": "block"}, {"op": "statesync", "back": 1}]
        out.append(insert_at(rnd, s, op))
    return out


def replay_after_import(rnd, model_scenarios, n):
    """model-generated ledger histories (unit amounts: accounts are drained exactly), exported and imported; on the new chain every
    sender is funded again and every transaction of the old chain is delivered once more (C26 across a genesis round trip)"""
    out = []
    pick = model_scenarios if len(model_scenarios) <= n else rnd.sample(model_scenarios, n)
    for k, h in enumerate(pick):
        s = _strip(h, "export")
        s["id"] = "XR%d" % k
        ids = [t["id"] for st in s["steps"] for t in st.get("txs", []) if "id" in t]
        steps = [st for st in s["steps"]]
        steps.append({"op": "export_import", "align": False})
        steps.append({"op": "block", "txs": [{"id": "f%d" % i, "type": "Send", "from": "o1", "args": {"coin": "BIP", "to": a, "value": "5u"}} for i, a in enumerate(["a1", "a2", "a3"])]})
        steps.append({"op": "block", "txs": [{"id": "r%d" % i, "repeat": t, "check": True} for i, t in enumerate(ids)]})
        steps.append({"op": "block"})
        s["steps"] = steps
        out.append(s)
    return out


def export_import(rnd, n_each):
    out = []
    for h in mixed_histories(rnd, n_each, "X"):
        s = _strip(h, "export")
        # two of three exports are taken at a stake-recalculation height (the behaviour of the new chain is compared from there on);
        # the others anywhere (round trip of the state only, see PropsSync.Folded)
        out.append(insert_at(rnd, s, [{"op": "export_import", "align": rnd.random() < 0.67}]))
    return out


def determinism(rnd, n_each):
    out = []
    for h in mixed_histories(rnd, n_each, "N"):
        out.append(_strip(h, "determinism", det=True, lean=True))
    out += busy_blocks(rnd, max(2, n_each // 2))
    return out


def busy_blocks(rnd, n):
    """blocks that dirty many keys of one module at once (ordering bugs need at least two dirty keys): many recipients,
    many delegators, many orders and pools touched in the same block, payouts to many owners"""
    out = []
    users = ["a1", "a2", "a3", "a4", "a5", "a6"]
    for k in range(n):
        steps = []
        tid = [0]
        renamed = set()

        def nid():
            tid[0] += 1
            return "t%d" % tid[0]
        for b in range(rnd.randint(2, 4)):
            txs = []
            for a in rnd.sample(users, rnd.randint(3, 6)):
                r = rnd.random()
                if r < 0.35:
                    txs.append({"id": nid(), "type": "Multisend", "from": a, "args": {"list": [{"coin": "BIP", "to": "x%d" % rnd.randint(1, 40), "value": "%du" % rnd.randint(1, 5)} for _ in range(rnd.randint(3, 12))]}})
                elif r < 0.7:
                    txs.append({"id": nid(), "type": "Delegate", "from": a, "args": {"pub": rnd.choice(["v1", "v2", "v3", "v4"]), "coin": "BIP", "value": "%du" % rnd.randint(1, 300)}})
                elif r < 0.85:
                    txs.append({"id": nid(), "type": "Unbond", "from": a, "args": {"pub": rnd.choice(["v1", "v2", "v3", "v4"]), "coin": "BIP", "value": "%du" % rnd.randint(1, 3)}})
                else:
                    txs.append({"id": nid(), "type": "Lock", "from": a, "args": {"coin": "BIP", "value": "%du" % rnd.randint(1, 5), "due": "h+%d" % rnd.randint(1, 4)}})
            # candidates change their public keys (the old keys enter the block list), new candidates appear
            for v, o in rnd.sample([("v1", "o1"), ("v2", "o2"), ("v3", "o3"), ("v4", "o4"), ("c5", "a5")], rnd.randint(0, 3)):
                if v not in renamed:
                    renamed.add(v)
                    txs.append({"id": nid(), "type": "EditCandidatePublicKey", "from": o, "args": {"pub": v, "newPub": "k" + v}})
            if rnd.random() < 0.5:
                a = rnd.choice(users)
                txs.append({"id": nid(), "type": "DeclareCandidacy", "from": a, "args": {"address": a, "pub": "n%d" % tid[0], "comm": 10, "coin": "BIP", "stake": "%du" % rnd.choice([100, 2000])}})
            steps.append({"op": "block", "txs": txs})
        steps.append({"op": "skip", "n": 13})
        out.append({"id": "NB%d" % k, "world": "W2", "family": "determinism", "det": True, "lean": True, "steps": steps})
    return out
